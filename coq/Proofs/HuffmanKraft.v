(* HuffmanKraft.v -- a table that passes the decoder's validity check (not over-subscribed) gives every
   symbol a canonical code that fits its length, so the decoding theorem of HuffmanCanon.v applies to
   every table the decoder accepts. *)
From Coq Require Import List NArith ZArith Arith Bool Lia ZifyBool ZifyN.
From Http Require Import Model.Bytes Model.Inflate Proofs.InflateLocal Proofs.HuffmanCanon.
Import ListNotations.

Lemma kraft_first_bound : forall n counts lft first p r,
    kraft_left lft counts = Some r ->
    (first + 2 * lft = 2 ^ p)%N ->
    1 <= n -> n <= length counts ->
    (first_at n counts first + nth (n - 1) counts 0 <= 2 ^ (p + N.of_nat (n - 1)))%N.
Proof.
  induction n as [|n IH]; intros counts lft first p r Hk Hinv Hn Hl; [lia|].
  destruct counts as [|c cs]; [simpl in Hl; lia|].
  cbn [kraft_left] in Hk. destruct (N.ltb (2 * lft) c) eqn:E; [discriminate|]. apply N.ltb_ge in E.
  destruct n as [|n'].
  - cbn [first_at nth Nat.sub]. change (N.of_nat 0) with 0%N. rewrite N.add_0_r. lia.
  - change (first_at (S (S n')) (c :: cs) first) with (first_at (S n') cs (2 * (first + c))%N).
    replace (nth (S (S n') - 1) (c :: cs) 0%N) with (nth (S n' - 1) cs 0%N)
      by (replace (S (S n') - 1) with (S (S n' - 1)) by lia; reflexivity).
    assert (Hinv' : (2 * (first + c) + 2 * (2 * lft - c) = 2 ^ (p + 1))%N).
    { rewrite N.pow_add_r, N.pow_1_r. lia. }
    pose proof (IH cs (2 * lft - c)%N (2 * (first + c))%N (p + 1)%N r Hk Hinv' ltac:(lia) ltac:(simpl in Hl; lia)) as H.
    replace (p + N.of_nat (S (S n') - 1))%N with (p + 1 + N.of_nat (S n' - 1))%N by lia. exact H.
Qed.

Lemma rank_lt_count l : forall lens sym,
    nth_error lens sym = Some l -> (count_len l (firstn sym lens) < count_len l lens)%N.
Proof.
  induction lens as [|x t IH]; intros sym Hs; [destruct sym; discriminate|].
  destruct sym as [|s'].
  - cbn in Hs. inversion Hs; subst. cbn [firstn count_len]. rewrite N.eqb_refl. lia.
  - cbn [nth_error] in Hs. cbn [firstn count_len]. specialize (IH _ Hs). lia.
Qed.

Lemma counts_nth lens L : 1 <= L -> L <= 15 ->
  nth (L - 1) (counts_for LENGTHS lens) 0%N = count_len (N.of_nat L) lens.
Proof.
  intros H1 H2. apply nth_error_nth. unfold counts_for. rewrite nth_error_map, (LENGTHS_nth L H1 H2). reflexivity.
Qed.

Lemma table_ok_kraft b lens : table_ok b (mk_table lens) = true ->
  exists r, kraft_left 1%N (counts_for LENGTHS lens) = Some r.
Proof.
  unfold table_ok. change (h_counts (mk_table lens)) with (counts_for LENGTHS lens).
  destruct (kraft_left 1%N (counts_for LENGTHS lens)) as [r|]; [eauto | discriminate].
Qed.

Lemma code_fits b lens sym L :
  table_ok b (mk_table lens) = true -> 1 <= L -> L <= 15 ->
  nth_error lens sym = Some (N.of_nat L) ->
  (code_value lens sym L < 2 ^ N.of_nat L)%N.
Proof.
  intros Hok H1 H2 Hs. destruct (table_ok_kraft _ _ Hok) as [r Hk].
  pose proof (kraft_first_bound L (counts_for LENGTHS lens) 1%N 0%N 1%N r Hk ltac:(reflexivity) H1
                                ltac:(unfold counts_for; rewrite map_length; simpl; lia)) as Hb.
  rewrite counts_nth in Hb by assumption.
  pose proof (rank_lt_count _ _ _ Hs) as Hr.
  unfold code_value. replace (1 + N.of_nat (L - 1))%N with (N.of_nat L) in Hb by lia. lia.
Qed.

(* every table the decoder accepts decodes the canonical code of each of its symbols *)
Theorem dec_sym_accepted_table b lens sym L s t :
  table_ok b (mk_table lens) = true ->
  1 <= L -> L <= 15 ->
  nth_error lens sym = Some (N.of_nat L) ->
  bits_of s = code_bits lens sym L ++ t ->
  exists s', dec_sym (mk_table lens) s = Ok sym s' /\ bits_of s' = t.
Proof.
  intros Hok H1 H2 Hs Hb.
  exact (dec_sym_canonical lens sym L s t H1 H2 Hs (code_fits b lens sym L Hok H1 H2 Hs) Hb).
Qed.
