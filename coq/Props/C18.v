(* C18 -- letter case of header names and coding tokens never changes framing or decoding.
   Stated over header lists: [hdrs_ci hs hs'] = same length, names equal up to ASCII case,
   values equal up to ASCII case (so in particular any case pattern of Content-Length,
   Transfer-Encoding, Trailer, Content-Encoding, Content-Type and of the tokens chunked, gzip,
   deflate, text, charset).  The header-block parser stores names and values verbatim
   (Model/Headers.v), so case variants of a message give [hdrs_ci]-related lists. *)
From Coq Require Import String.
From Http Require Import Model.Bytes Model.Num Model.Headers Model.Request Model.Response
     Model.Coding Proofs.CaseLemmas.

(* every lookup the crate performs is blind to letter case *)
Theorem C18_lookups_ignore_case :
  forall (hs hs' : list header) (n n' tok tok' : bytes),
    hdrs_ci hs hs' -> ci_eq n n' -> ci_eq tok tok' ->
    header_tokens hs n = header_tokens hs' n' /\
    has_header_token hs n tok = has_header_token hs' n' tok' /\
    has_header hs n = has_header hs' n'.
Proof.
  intros hs hs' n n' tok tok' H Hn Ht. split; [|split].
  - exact (header_tokens_ci hs hs' n n' H Hn).
  - exact (has_header_token_ci hs hs' n n' tok tok' H Hn Ht).
  - exact (has_header_ci hs hs' n n' H Hn).
Qed.
Print Assumptions C18_lookups_ignore_case.

(* response framing (Content-Length value, else chunked token, else no body) *)
Theorem C18_response_framing_ignores_case :
  forall hs hs' : list header, hdrs_ci hs hs' -> resp_framing hs = resp_framing hs'.
Proof. exact resp_framing_ci. Qed.
Print Assumptions C18_response_framing_ignores_case.

(* the parser's framing decision is this function (so verdict, boundary and body follow) *)
Theorem C18_resp_headers_uses_framing :
  forall (st : resp_state) (buf : bytes) hs c,
    hdr_parse None (s_headers st) buf = HComplete hs c ->
    resp_headers st buf =
    let st1 := {| s_phase := SHeaders; s_code := s_code st; s_reason := s_reason st;
                  s_headers := hs; s_body := s_body st; s_trailer := s_trailer st |} in
    match resp_framing hs with
    | FFixed n => rshift c (resp_fixed st1 n (skipn c buf))
    | FBadLength => (st, Reject EInvalidContentLength)
    | FChunked => rshift c (resp_chunked st1 Chunked.chunk_init (skipn c buf))
    | FNone => (st1, Complete c)
    end.
Proof.
  intros st buf hs c H. unfold resp_headers, resp_framing. rewrite H. cbv zeta.
  destruct (header_value hs CONTENT_LENGTH) as [v|]; [destruct (parse_dec v); reflexivity|].
  destruct (has_header_token hs TRANSFER_ENCODING CHUNKED); reflexivity.
Qed.
Print Assumptions C18_resp_headers_uses_framing.

Theorem C18_request_framing_ignores_case :
  forall hs hs' : list header, hdrs_ci hs hs' -> req_framing hs = req_framing hs'.
Proof. exact req_framing_ci. Qed.
Print Assumptions C18_request_framing_ignores_case.

(* content decoding: same result body (or same failure) *)
Theorem C18_decode_body_ignores_case :
  forall (gunzip inflate_raw inflate_zlib : bytes -> option bytes) (hs hs' : list header) (body : bytes),
    hdrs_ci hs hs' ->
    option_map snd (decode_body gunzip inflate_raw inflate_zlib hs body) =
    option_map snd (decode_body gunzip inflate_raw inflate_zlib hs' body).
Proof. exact decode_body_ci. Qed.
Print Assumptions C18_decode_body_ignores_case.

(* text decoding: same text, given that encoding_rs matches labels case-insensitively *)
Theorem C18_decode_text_ignores_case :
  forall (enc : Type) (for_label : bytes -> option enc) (enc_decode : enc -> bytes -> option (list N)),
    (forall l l', ci_eq l l' -> for_label l = for_label l') ->
    forall (hs hs' : list header) (body : bytes),
      hdrs_ci hs hs' ->
      decode_text enc for_label enc_decode hs body = decode_text enc for_label enc_decode hs' body.
Proof. exact decode_text_ci. Qed.
Print Assumptions C18_decode_text_ignores_case.

Example C18_example :
  hdrs_ci [(str "content-LENGTH"%string, str "3"%string); (str "TRANSFER-encoding"%string, str "GZip, CHUNKED"%string)]
          [(str "Content-Length"%string, str "3"%string); (str "Transfer-Encoding"%string, str "gzip, chunked"%string)]
  /\ resp_framing [(str "transfer-ENCODING"%string, str "gzip, Chunked"%string)] = FChunked.
Proof. split; [repeat constructor|reflexivity]. Qed.
