(* NumShow.v -- usize::to_string and the decimal parser are inverse: parse_dec (show_dec n) = n. *)
From Coq Require Import ZArith Lia ZifyN ZifyNat NArithRing.
From Http Require Import Model.Bytes Model.Num Proofs.Utf8Lemmas.

Definition step10 (acc b : N) : N := (acc * 10 + digit_val b)%N.

Lemma dec_value_fold l a : fold_left step10 l a = (a * 10 ^ N.of_nat (length l) + fold_left step10 l 0)%N.
Proof.
  revert a. induction l as [|d l IH]; intros a.
  - simpl. ring.
  - cbn [fold_left length]. rewrite (IH (step10 a d)), (IH (step10 0 d)).
    rewrite Nat2N.inj_succ, N.pow_succ_r'. unfold step10. ring.
Qed.

Lemma dec_value_cons d l :
  dec_value (d :: l) = (digit_val d * 10 ^ N.of_nat (length l) + dec_value l)%N.
Proof.
  unfold dec_value. cbn [fold_left]. fold step10.
  change (fold_left (fun acc b => (acc * 10 + digit_val b)%N) l) with (fold_left step10 l).
  rewrite dec_value_fold. unfold step10. ring.
Qed.

Lemma digit_char n : is_digit (48 + n mod 10) = true /\ digit_val (48 + n mod 10) = (n mod 10)%N.
Proof.
  assert (H : (n mod 10 < 10)%N) by (apply N.mod_lt; discriminate).
  split.
  - unfold is_digit. apply between_spec. lia.
  - unfold digit_val. lia.
Qed.

Lemma show_aux_spec f : forall n acc,
  (n < 2 ^ N.of_nat f)%N -> forallb is_digit acc = true ->
  forallb is_digit (show_dec_aux f n acc) = true /\
  dec_value (show_dec_aux f n acc) = (n * 10 ^ N.of_nat (length acc) + dec_value acc)%N /\
  (f <> 0 -> show_dec_aux f n acc <> []).
Proof.
  induction f as [|f IH]; intros n acc Hn Hacc.
  - simpl in Hn. assert (n = 0%N) by lia. subst. cbn [show_dec_aux].
    split; [exact Hacc|]. split; [ring|congruence].
  - cbn [show_dec_aux]. destruct (digit_char n) as [Hd Hv].
    set (acc' := (48 + n mod 10)%N :: acc).
    assert (Hacc' : forallb is_digit acc' = true) by (unfold acc'; cbn [forallb]; rewrite Hd, Hacc; reflexivity).
    destruct (N.ltb n 10) eqn:L.
    + apply N.ltb_lt in L. split; [exact Hacc'|]. split; [|intros _; unfold acc'; discriminate].
      unfold acc'. rewrite dec_value_cons, Hv. rewrite N.mod_small by exact L. reflexivity.
    + apply N.ltb_ge in L.
      assert (Hn' : (n / 10 < 2 ^ N.of_nat f)%N).
      { rewrite Nat2N.inj_succ, N.pow_succ_r' in Hn.
        apply N.div_lt_upper_bound; [discriminate|]. lia. }
      destruct (IH (n / 10)%N acc' Hn' Hacc') as [I1 [I2 I3]].
      split; [exact I1|]. split.
      * rewrite I2. unfold acc' at 2. rewrite dec_value_cons, Hv.
        unfold acc'. cbn [length]. rewrite Nat2N.inj_succ, N.pow_succ_r'.
        rewrite (N.div_mod n 10) at 3 by discriminate. ring.
      * intros _ Hnil.
        (* the recursive call keeps acc' as a suffix: never empty *)
        assert (Hne : forall g m a, a <> [] -> show_dec_aux g m a <> []).
        { clear. induction g as [|g IHg]; intros m a Ha; [exact Ha|].
          cbn [show_dec_aux]. destruct (N.ltb m 10); [discriminate|]. apply IHg. discriminate. }
        apply (Hne f (n / 10)%N acc'); [unfold acc'; discriminate|exact Hnil].
Qed.

Theorem show_dec_digits n : show_dec n <> [] /\ forallb is_digit (show_dec n) = true /\ dec_value (show_dec n) = n.
Proof.
  unfold show_dec.
  assert (Hn : (n < 2 ^ N.of_nat (S (N.to_nat (N.log2 n))))%N).
  { rewrite Nat2N.inj_succ, N2Nat.id. destruct n as [|p]; [reflexivity|].
    apply N.log2_spec. reflexivity. }
  destruct (show_aux_spec _ n [] Hn eq_refl) as [H1 [H2 H3]].
  split; [apply H3; discriminate|]. split; [exact H1|].
  rewrite H2. cbn [length N.of_nat]. unfold dec_value. cbn [fold_left]. rewrite N.pow_0_r. ring.
Qed.

Theorem parse_show_dec n : (n <= USIZE_MAX)%N -> parse_dec (show_dec n) = Some n.
Proof.
  intros Hle. destruct (show_dec_digits n) as [Hne [Hd Hv]].
  unfold parse_dec. destruct (show_dec n) as [|a l] eqn:E; [congruence|].
  rewrite Hd, Hv. apply N.leb_le in Hle. rewrite Hle. reflexivity.
Qed.
