(* Reserialise.v -- whatever the parsers accept can be re-serialised to an equivalent message (C11). *)
From Coq Require Import ZArith Lia ZifyN ZifyNat String.
From Http Require Import Model.Bytes Model.Utf8 Model.Num Model.Headers Model.Request
     Model.Chunked Model.Response
     Spec.HeaderGrammar Spec.ChunkedGrammar Spec.RequestGrammar Spec.ResponseGrammar
     Proofs.BytesLemmas Proofs.HeaderAlgebra Proofs.HeaderGrammarProofs Proofs.TrimLemmas
     Proofs.ReqGrammar Proofs.RespGrammar Proofs.NumShow Proofs.Utf8Lemmas Proofs.Utf8Split Proofs.RoundTrip.

(* parsed header fields are well-formed values: legal name, legal trimmed value *)
Definition hdr_wf0 (h : header) : Prop :=
  name_ok (fst h) /\ forallb is_vchar (snd h) = true /\ trim (snd h) = snd h.

Lemma sp_vchar : is_vchar SP = true. Proof. reflexivity. Qed.

Lemma unfolded_vchars cs : forall v,
  forallb is_vchar v = true -> Forall cont_ok cs -> forallb is_vchar (unfolded v cs) = true.
Proof.
  induction cs as [|c cs IH]; intros v Hv Hcs; [exact Hv|].
  inversion Hcs as [|? ? Hc Hcs']; subst. cbn [unfolded fold_left]. apply IH; [|exact Hcs'].
  rewrite !forallb_app. rewrite Hv. cbn [forallb]. rewrite sp_vchar. cbn [andb].
  apply forallb_trim. destruct c as [|b l]; [contradiction|]. destruct Hc as [_ Hc]. exact Hc.
Qed.

Lemma parsed_field_wf lim f : field_ok lim f -> hdr_wf0 (field_header f).
Proof.
  intros [Hn [Hv [Hc _]]]. unfold hdr_wf0, field_header. cbn [fst snd].
  split; [exact Hn|]. split; [|apply trim_idem].
  apply forallb_trim. apply unfolded_vchars; assumption.
Qed.

Lemma parsed_fields_wf lim fs : Forall (field_ok lim) fs -> Forall hdr_wf0 (map field_header fs).
Proof.
  induction 1 as [|f fs Hf _ IH]; [constructor|]. cbn [map]. constructor; [|exact IH].
  eapply parsed_field_wf. exact Hf.
Qed.

Definition lines_fit (lim : option N) (hs : list header) : Prop :=
  Forall (fun h => over_limit (length (header_line h) + 2) lim = false) hs.

Lemma wf0_fit lim hs : Forall hdr_wf0 hs -> lines_fit lim hs -> Forall (hdr_wf lim) hs.
Proof.
  intros H1 H2. induction H1 as [|h hs [Hn [Hv Ht]] _ IH]; [constructor|].
  inversion H2; subst. constructor; [|apply IH; assumption].
  unfold hdr_wf. repeat split; try assumption; apply Hn.
Qed.

Section Req.
  Variable uri : Type.
  Variable uri_parse : bytes -> option uri.
  Variable uri_show : uri -> bytes.
  Notation P := (req_parse uri uri_parse).

  (* "whose re-serialised header lines fit the configured line limit without folding", and
     likewise the re-serialised request line and total size *)
  Definition refits (cfg : rcfg) (v : req_value uri) : Prop :=
    over_limit (length (request_line (v_method v) (uri_show (v_target v)))) (rl cfg) = false /\
    lines_fit (hl cfg) (v_headers v) /\
    let head := N.of_nat (length (request_line (v_method v) (uri_show (v_target v))) + 2
                          + length (hdr_generate_nolimit (v_headers v))) in
    within_max cfg (head + N.of_nat (length (v_body v))).

  Theorem accepted_request_is_wf cfg x st c u :
    P cfg req_init x = (st, Complete c) -> r_target st = Some u ->
    uri_ok uri uri_parse uri_show u ->
    refits cfg (value_of uri st u) ->
    WfRequest uri uri_parse uri_show cfg (value_of uri st u).
  Proof.
    intros HP Ht Hu [Hrl [Hfit Hmax]].
    destruct (req_parse_sound uri uri_parse cfg x st c HP) as [u' [Ht' HI]].
    rewrite Ht in Ht'. inversion Ht'; subst u'. clear Ht'.
    destruct HI as [tstr [fs [Hm [Hline [[Hfs Hl2] [Hhs Hbody]]]]]].
    cbn [v_method v_target v_headers v_body value_of] in *.
    destruct Hline as [Hmne [Hmsp [_ [_ [_ [Hil [Hutf _]]]]]]].
    assert (Hg : method_ok (r_method st)).
    { split; [exact Hmsp|]. unfold request_line in Hil, Hutf. cbn [app] in Hil, Hutf. split.
      - eapply (utf8_valid_split (r_method st) SP); [reflexivity|exact Hutf].
      - apply (proj1 (is_line_iff _)) in Hil. eapply find_crlf_prefix_none. exact Hil. }
    unfold WfRequest. cbn [v_method v_target v_headers v_body value_of].
    split; [exact Hmne|]. split; [exact Hg|]. split; [exact Hu|]. split; [exact Hrl|].
    split; [apply wf0_fit; [rewrite Hhs; eapply parsed_fields_wf; exact Hfs|exact Hfit]|].
    split; [exact Hl2|]. cbv zeta in *.
    destruct (header_value (r_headers st) CONTENT_LENGTH) as [t|].
    - destruct Hbody as [n [PD [Hlen _]]]. exists n. split; [exact PD|]. split; [exact Hlen|].
      replace n with (N.of_nat (length (r_body st))) by lia. exact Hmax.
    - destruct Hbody as [Hb _]. split; [exact Hb|]. rewrite Hb in Hmax. cbn [length] in Hmax.
      rewrite N.add_0_r in Hmax. exact Hmax.
  Qed.

  (* C11 for requests *)
  Theorem request_reserialise cfg x st c u :
    P cfg req_init x = (st, Complete c) -> r_target st = Some u ->
    uri_ok uri uri_parse uri_show u ->
    refits cfg (value_of uri st u) ->
    exists g st2,
      generate_request uri uri_show cfg (value_of uri st u) = Some g /\
      P cfg req_init g = (st2, Complete (length g)) /\
      value_of uri st2 u = value_of uri st u /\ r_target st2 = Some u.
  Proof.
    intros HP Ht Hu Hfit.
    pose proof (accepted_request_is_wf cfg x st c u HP Ht Hu Hfit) as Hwf.
    destruct (request_roundtrip uri uri_parse uri_show cfg _ Hwf) as [g [st2 [H1 [H2 [H3 [H4 _]]]]]].
    exists g, st2. repeat split; assumption.
  Qed.
End Req.

(* ---- responses ---- *)
Lemma status_reason_ok codetext reason code :
  status_line_ok codetext reason code -> find_crlf reason = None /\ utf8_valid reason = true.
Proof.
  intros [PD [_ [Hil Hu]]]. destruct (Numeric.parse_dec_digits _ _ PD) as [[_ Hd] _].
  set (pre := HTTP11 ++ [SP] ++ codetext ++ [SP]).
  assert (Hsl : status_line codetext reason = pre ++ reason).
  { unfold status_line, pre. rewrite <- !app_assoc. reflexivity. }
  assert (Hclean : Forall (fun x => x <> CR /\ x <> LF) pre).
  { unfold pre. apply Forall_app. split; [repeat constructor; discriminate|].
    apply Forall_app. split; [repeat constructor; discriminate|].
    apply Forall_app. split; [apply digits_clean; exact Hd|repeat constructor; discriminate]. }
  assert (Hascii : Forall (fun x => (x < 128)%N) pre).
  { unfold pre. apply Forall_app. split; [repeat constructor|].
    apply Forall_app. split; [repeat constructor|].
    apply Forall_app. split; [apply digits_ascii; exact Hd|repeat constructor]. }
  rewrite Hsl in Hil, Hu. split.
  - apply is_line_iff in Hil. rewrite find_crlf_clean_prefix in Hil by exact Hclean.
    destruct (find_crlf reason); [discriminate|reflexivity].
  - rewrite utf8_valid_ascii_app in Hu by exact Hascii. exact Hu.
Qed.

(* C11 for responses framed by Content-Length or without a body: the parsed value is
   well-formed, hence round-trips (trailing data is not part of the message) *)
Theorem accepted_response_is_wf x st c :
  resp_parse resp_init x = (st, Complete c) ->
  header_value (s_headers st) CONTENT_LENGTH <> None \/
  has_header_token (s_headers st) TRANSFER_ENCODING CHUNKED = false ->
  (exists hs0 tf pl, s_headers st = dechunk_headers hs0 tf pl /\ header_value hs0 CONTENT_LENGTH = None
                     /\ has_header_token hs0 TRANSFER_ENCODING CHUNKED = true) \/
  WfResponse (resp_value_of st).
Proof.
  intros HP Hfr.
  destruct (resp_parse_sound x st c HP) as [_ [_ [HI _]]].
  destruct HI as [codetext [fs [wire [Hm [Hline [[Hfs _] Hframing]]]]]].
  cbn [w_code w_reason w_headers w_body resp_value_of] in *.
  destruct (status_reason_ok _ _ _ Hline) as [Hr Hu].
  destruct Hline as [_ [Hc _]].
  pose proof (parsed_fields_wf None fs Hfs) as Hwf0.
  remember (map field_header fs) as hs0 eqn:Ehs.
  remember (s_headers st) as hfin eqn:Ehf. remember (s_body st) as bfin eqn:Ebf.
  destruct Hframing as [t n body HV PD Hlen|cb payload tfields HV HT HC|HV HT].
  - right. unfold WfResponse. cbn [w_code w_reason w_headers w_body resp_value_of].
    split; [exact Hc|]. split; [exact Hr|]. split; [exact Hu|]. rewrite <- Ehf.
    split; [apply wf0_fit; [exact Hwf0|apply Forall_forall; intros; reflexivity]|].
    rewrite HV. exists n. split; [exact PD|]. rewrite <- Ebf. exact Hlen.
  - left. exists hs0, tfields, payload. repeat split; assumption.
  - right. unfold WfResponse. cbn [w_code w_reason w_headers w_body resp_value_of].
    split; [exact Hc|]. split; [exact Hr|]. split; [exact Hu|]. rewrite <- Ehf.
    split; [apply wf0_fit; [exact Hwf0|apply Forall_forall; intros; reflexivity]|].
    rewrite HV. rewrite <- Ebf. split; [reflexivity|exact HT].
Qed.

Theorem response_reserialise x st c :
  resp_parse resp_init x = (st, Complete c) ->
  WfResponse (resp_value_of st) ->
  exists st2,
    resp_parse resp_init (generate_response (resp_value_of st)) =
      (st2, Complete (length (generate_response (resp_value_of st)))) /\
    resp_value_of st2 = resp_value_of st.
Proof.
  intros _ Hwf. destruct (response_roundtrip _ Hwf) as [st2 [H1 [H2 _]]]. exists st2. split; assumption.
Qed.
