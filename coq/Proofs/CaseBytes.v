(* CaseBytes.v -- the header-block parser is transparent to ASCII letter case: parsing the
   lower-cased bytes gives the lower-cased result (same answer, same consumed count, names and
   values lower-cased).  So two blocks equal up to letter case give header lists equal up to
   letter case (the link between C18's list-level theorems and the message bytes). *)
From Coq Require Import ZArith Lia ZifyN ZifyBool.
From Http Require Import Model.Bytes Model.Utf8 Model.Num Model.Headers
     Proofs.BytesLemmas Proofs.HeadersResume Proofs.Utf8Lemmas Proofs.CaseLemmas.

Lemma to_lower_small c : (c < 128)%N -> (to_lower c < 128)%N.
Proof.
  unfold to_lower. destruct (between 65 90 c) eqn:E; [|tauto]. apply between_spec in E. lia.
Qed.

Lemma to_lower_big c : (128 <= c)%N -> to_lower c = c.
Proof.
  intros H. unfold to_lower. destruct (between 65 90 c) eqn:E; [|reflexivity].
  apply between_spec in E. lia.
Qed.

Lemma ltb128_lower c : N.ltb (to_lower c) 128 = N.ltb c 128.
Proof.
  destruct (N.ltb c 128) eqn:E.
  - apply N.ltb_lt in E. apply N.ltb_lt. apply to_lower_small. exact E.
  - apply N.ltb_ge in E. rewrite to_lower_big by exact E. apply N.ltb_ge. exact E.
Qed.

(* a range test above the letters does not see letter case *)
Lemma between_lower lo hi c : (123 <= lo)%N -> between lo hi (to_lower c) = between lo hi c.
Proof.
  intros Hlo. unfold to_lower. destruct (between 65 90 c) eqn:E; [|reflexivity].
  apply between_spec in E.
  assert (H1 : between lo hi (c + 32) = false) by (apply between_false; lia).
  assert (H2 : between lo hi c = false) by (apply between_false; lia).
  rewrite H1, H2. reflexivity.
Qed.

Lemma eqb_lower_big c d : (123 <= d)%N -> N.eqb (to_lower c) d = N.eqb c d.
Proof.
  intros Hd. apply eqb_to_lower; apply between_false; lia.
Qed.

Lemma utf8_valid_lower_n n : forall s, length s <= n -> utf8_valid (lower s) = utf8_valid s.
Proof.
  induction n as [|n IH]; intros s Hn.
  - destruct s; [reflexivity|simpl in Hn; lia].
  - destruct s as [|b0 t]; [reflexivity|]. simpl in Hn.
    cbn [lower map utf8_valid]. fold (lower t).
    rewrite ltb128_lower.
    destruct (N.ltb b0 128) eqn:A; [apply IH; lia|].
    rewrite !between_lower by lia. rewrite !eqb_lower_big by lia.
    destruct (between 194 223 b0).
    { destruct t as [|b1 t1]; [reflexivity|]. cbn [lower map]. fold (lower t1).
      unfold is_cont. rewrite between_lower by lia. rewrite IH by (simpl in Hn; lia). reflexivity. }
    destruct (between 224 239 b0).
    { destruct t as [|b1 [|b2 t2]]; try reflexivity. cbn [lower map]. fold (lower t2).
      unfold is_cont. rewrite !between_lower by lia. rewrite IH by (simpl in Hn; lia). reflexivity. }
    destruct (between 240 244 b0); [|reflexivity].
    destruct t as [|b1 [|b2 [|b3 t3]]]; try reflexivity. cbn [lower map]. fold (lower t3).
    unfold is_cont. rewrite !between_lower by lia. rewrite IH by (simpl in Hn; lia). reflexivity.
Qed.

Lemma utf8_valid_lower s : utf8_valid (lower s) = utf8_valid s.
Proof. apply (utf8_valid_lower_n (length s)). apply le_n. Qed.

Lemma find_crlf_lower s : find_crlf (lower s) = find_crlf s.
Proof.
  induction s as [|a s IH]; [reflexivity|].
  destruct s as [|b t]; [reflexivity|].
  change (lower (a :: b :: t)) with (to_lower a :: to_lower b :: lower t).
  rewrite !find_crlf_cons2.
  rewrite (eqb_to_lower a CR) by reflexivity. rewrite (eqb_to_lower b LF) by reflexivity.
  change (to_lower b :: lower t) with (lower (b :: t)). rewrite IH. reflexivity.
Qed.

Lemma length_lower s : length (lower s) = length s.
Proof. apply map_length. Qed.

Lemma is_graphic_lower c : is_graphic (to_lower c) = is_graphic c.
Proof.
  unfold is_graphic, to_lower. destruct (between 65 90 c) eqn:E; [|reflexivity].
  apply between_spec in E.
  assert (H1 : between 33 126 (c + 32) = true) by (apply between_spec; lia).
  assert (H2 : between 33 126 c = true) by (apply between_spec; lia).
  rewrite H1, H2. reflexivity.
Qed.

Lemma is_vchar_lower c : is_vchar (to_lower c) = is_vchar c.
Proof.
  unfold is_vchar. rewrite is_graphic_lower.
  rewrite (eqb_to_lower c HT) by reflexivity. rewrite (eqb_to_lower c SP) by reflexivity. reflexivity.
Qed.

Lemma is_wsp_lower c : is_wsp (to_lower c) = is_wsp c.
Proof.
  unfold is_wsp. rewrite (eqb_to_lower c HT) by reflexivity. rewrite (eqb_to_lower c SP) by reflexivity.
  reflexivity.
Qed.

Lemma forallb_lower (p : N -> bool) s :
  (forall c, p (to_lower c) = p c) -> forallb p (lower s) = forallb p s.
Proof.
  intros Hp. induction s as [|a s IH]; [reflexivity|]. cbn [lower map forallb]. fold (lower s).
  rewrite Hp, IH. reflexivity.
Qed.

(* ---- results, lower-cased ---- *)
Definition lower_hdr (h : header) : header := (lower (fst h), lower (snd h)).

Definition ures_lower (r : ures) : ures :=
  match r with UOk v c => UOk (lower v) c | r => r end.

Definition sres_lower (r : sres) : sres :=
  match r with SField h c => SField (lower_hdr h) c | r => r end.

Definition hres_lower (r : hres) : hres :=
  match r with
  | HComplete hs c => HComplete (map lower_hdr hs) c
  | HIncomplete hs c => HIncomplete (map lower_hdr hs) c
  | HError e => HError e
  end.

Lemma unfold_hdr_lower f : forall s v c,
  unfold_hdr f (lower s) (lower v) c = ures_lower (unfold_hdr f s v c).
Proof.
  induction f as [|f IH]; intros s v c; [reflexivity|].
  rewrite !unfold_step. rewrite find_crlf_lower.
  destruct (find_crlf s) as [lt|]; [|reflexivity]. cbv zeta.
  rewrite firstn_lower, utf8_valid_lower.
  destruct (negb (utf8_valid (firstn lt s))); [reflexivity|].
  destruct (firstn lt s) as [|b l] eqn:L; [reflexivity|].
  change (lower (b :: l)) with (to_lower b :: lower l). cbv beta iota. rewrite is_wsp_lower.
  destruct (is_wsp b); [|reflexivity].
  change (to_lower b :: lower l) with (lower (b :: l)).
  rewrite (forallb_lower is_vchar) by apply is_vchar_lower.
  destruct (negb (forallb is_vchar (b :: l))); [reflexivity|].
  rewrite skipn_lower. rewrite trim_lower.
  change [SP] with (lower [SP]). rewrite <- !lower_app. apply IH.
Qed.

Lemma hdr_step_lower lim s : hdr_step lim (lower s) = sres_lower (hdr_step lim s).
Proof.
  unfold hdr_step. destruct s as [|a s']; [reflexivity|].
  change (lower (a :: s')) with (to_lower a :: lower s') at 1.
  change (to_lower a :: lower s') with (lower (a :: s')).
  rewrite find_crlf_lower, length_lower.
  destruct (find_crlf (a :: s')) as [lt|].
  2:{ destruct (over_limit _ lim); reflexivity. }
  destruct (over_limit (lt + 2) lim); [reflexivity|].
  destruct lt as [|lt0]; [reflexivity|]. cbv zeta.
  rewrite firstn_lower, utf8_valid_lower.
  destruct (negb (utf8_valid (firstn (S lt0) (a :: s')))); [reflexivity|].
  rewrite (find_byte_lower COLON) by reflexivity.
  destruct (find_byte COLON (firstn (S lt0) (a :: s'))) as [k|]; [|reflexivity].
  rewrite firstn_lower, skipn_lower.
  rewrite (forallb_lower is_graphic) by apply is_graphic_lower.
  destruct (negb (forallb is_graphic _)); [reflexivity|].
  rewrite (forallb_lower is_vchar) by apply is_vchar_lower.
  destruct (negb (forallb is_vchar _)); [reflexivity|].
  rewrite skipn_lower. rewrite unfold_hdr_lower.
  destruct (unfold_hdr _ _ _ 0) as [|e|v c2]; try reflexivity.
  cbn [ures_lower sres_lower lower_hdr fst snd]. rewrite trim_lower. reflexivity.
Qed.

Lemma hdr_loop_lower f lim : forall s acc off,
  hdr_loop f lim (lower s) (map lower_hdr acc) off = hres_lower (hdr_loop f lim s acc off).
Proof.
  induction f as [|f IH]; intros s acc off; [reflexivity|].
  rewrite !hdr_loop_step. rewrite hdr_step_lower.
  destruct (hdr_step lim s) as [|e|c|h c]; try reflexivity.
  cbn [sres_lower]. rewrite skipn_lower.
  replace (map lower_hdr acc ++ [lower_hdr h]) with (map lower_hdr (acc ++ [h]))
    by (rewrite map_app; reflexivity).
  apply IH.
Qed.

Theorem hdr_parse_lower lim hs0 s :
  hdr_parse lim (map lower_hdr hs0) (lower s) = hres_lower (hdr_parse lim hs0 s).
Proof. unfold hdr_parse. rewrite length_lower. apply hdr_loop_lower. Qed.

(* ---- two blocks equal up to letter case ---- *)
Definition hres_ci (r r' : hres) : Prop :=
  match r, r' with
  | HComplete hs c, HComplete hs' c' => hdrs_ci hs hs' /\ c = c'
  | HIncomplete hs c, HIncomplete hs' c' => hdrs_ci hs hs' /\ c = c'
  | HError e, HError e' => e = e'
  | _, _ => False
  end.

Lemma hdrs_ci_of_lower hs hs' : map lower_hdr hs = map lower_hdr hs' -> hdrs_ci hs hs'.
Proof.
  revert hs'. induction hs as [|h hs IH]; intros [|h' hs'] H; try discriminate; [constructor|].
  cbn [map] in H. inversion H as [[H1 H2 H3]]. constructor; [split; assumption|apply IH; exact H3].
Qed.

Lemma lower_of_hdrs_ci hs hs' : hdrs_ci hs hs' -> map lower_hdr hs = map lower_hdr hs'.
Proof.
  induction 1 as [|h h' hs hs' [H1 H2] _ IH]; [reflexivity|].
  cbn [map]. unfold lower_hdr at 1 3. unfold ci_eq in *. rewrite H1, H2, IH. reflexivity.
Qed.

Theorem hdr_parse_ci lim hs0 hs0' s s' :
  hdrs_ci hs0 hs0' -> ci_eq s s' -> hres_ci (hdr_parse lim hs0 s) (hdr_parse lim hs0' s').
Proof.
  intros H0 Hs.
  pose proof (hdr_parse_lower lim hs0 s) as A. pose proof (hdr_parse_lower lim hs0' s') as B.
  rewrite (lower_of_hdrs_ci _ _ H0) in A. unfold ci_eq in Hs. rewrite Hs in A. rewrite A in B.
  destruct (hdr_parse lim hs0 s) as [hs c|hs c|e], (hdr_parse lim hs0' s') as [hs' c'|hs' c'|e'];
    cbn [hres_lower] in B; try discriminate; cbn [hres_ci].
  - inversion B. split; [apply hdrs_ci_of_lower; assumption|reflexivity].
  - inversion B. split; [apply hdrs_ci_of_lower; assumption|reflexivity].
  - inversion B. reflexivity.
Qed.
