(* HeaderGrammarProofs.v -- MessageHeaders::parse accepts exactly the header-block grammar. *)
From Coq Require Import Lia.
From Http Require Import Model.Bytes Model.Utf8 Model.Headers Spec.HeaderGrammar
     Proofs.BytesLemmas Proofs.HeadersResume Proofs.Utf8Lemmas.

(* ---- small facts ---- *)
Lemma vchar_lt128 b : is_vchar b = true -> (b < 128)%N.
Proof.
  unfold is_vchar, is_graphic. intros H.
  apply orb_prop in H as [H|H]; [apply orb_prop in H as [H|H]|].
  - apply N.eqb_eq in H. subst. reflexivity.
  - apply N.eqb_eq in H. subst. reflexivity.
  - apply between_spec in H. unfold N.lt. destruct H as [_ H]. apply N.le_lt_trans with 126%N; [exact H|reflexivity].
Qed.

Lemma ascii_utf8_valid s : Forall (fun b => (b < 128)%N) s -> utf8_valid s = true.
Proof.
  induction 1 as [|b s Hb _ IH]; [reflexivity|].
  cbn [utf8_valid]. apply N.ltb_lt in Hb. rewrite Hb. exact IH.
Qed.

Lemma vchars_utf8_valid s : forallb is_vchar s = true -> utf8_valid s = true.
Proof.
  intros H. apply ascii_utf8_valid. rewrite forallb_forall in H. apply Forall_forall.
  intros b Hb. apply vchar_lt128. apply H. exact Hb.
Qed.

Lemma graphic_vchar b : is_graphic b = true -> is_vchar b = true.
Proof. intros H. unfold is_vchar. rewrite H. apply orb_true_r. Qed.

Lemma vchar_not_cr b : is_vchar b = true -> N.eqb b CR = false.
Proof.
  intros H. destruct (N.eqb b CR) eqn:E; [|reflexivity]. apply N.eqb_eq in E. subst. discriminate.
Qed.

(* a line of vchars has no CRLF inside: it is a line *)
Lemma vchars_find_crlf s rest :
  forallb is_vchar s = true -> find_crlf (s ++ CRLF ++ rest) = Some (length s).
Proof.
  induction s as [|a s IH]; intros H.
  - reflexivity.
  - simpl in H. apply andb_prop in H as [Ha Hs].
    change ((a :: s) ++ CRLF ++ rest) with (a :: (s ++ CRLF ++ rest)).
    destruct (s ++ CRLF ++ rest) as [|b t] eqn:E.
    { destruct s; discriminate. }
    rewrite find_crlf_cons2. rewrite (vchar_not_cr a Ha). cbn [andb].
    rewrite (IH Hs). reflexivity.
Qed.

Lemma first_line_vchars f :
  name_ok (f_name f) -> forallb is_vchar (f_seg0 f) = true -> forallb is_vchar (first_line f) = true.
Proof.
  intros [Hn _] Hv. unfold first_line. rewrite !forallb_app. rewrite Hv.
  cbn [forallb]. rewrite andb_true_r.
  assert (Hg : forallb is_vchar (f_name f) = true).
  { rewrite forallb_forall in *. intros b Hb. apply graphic_vchar. apply Hn. exact Hb. }
  rewrite Hg. reflexivity.
Qed.

Lemma find_byte_app_none c a b : find_byte c a = None ->
  find_byte c (a ++ c :: b) = Some (length a).
Proof.
  induction a as [|x a IH]; intros H.
  - simpl. rewrite N.eqb_refl. reflexivity.
  - simpl in *. destruct (N.eqb x c); [discriminate|].
    destruct (find_byte c a); [discriminate|]. rewrite (IH eq_refl). reflexivity.
Qed.

(* what may follow a field: a terminated line that is not a continuation *)
Definition stops_unfold (rem : bytes) : Prop :=
  exists lt, find_crlf rem = Some lt /\ utf8_valid (firstn lt rem) = true /\
             match firstn lt rem with b :: _ => is_wsp b = false | [] => True end.

Lemma conts_bytes_cons c cs : conts_bytes (c :: cs) = c ++ CRLF ++ conts_bytes cs.
Proof. unfold conts_bytes. cbn [flat_map]. rewrite <- app_assoc. reflexivity. Qed.

(* ---- completeness of unfolding ---- *)
Lemma unfold_complete cs : forall rem v c f,
  Forall cont_ok cs -> stops_unfold rem -> length (conts_bytes cs ++ rem) < f ->
  unfold_hdr f (conts_bytes cs ++ rem) v c = UOk (unfolded v cs) (c + length (conts_bytes cs)).
Proof.
  induction cs as [|cl cs IH]; intros rem v c f Hok Hrem Hf.
  - cbn [conts_bytes flat_map app]. destruct f as [|f]; [lia|]. rewrite unfold_step.
    destruct Hrem as [lt [E [U W]]]. rewrite E. cbv zeta. rewrite U. cbn [negb].
    destruct (firstn lt rem) as [|b l]; [cbn; f_equal; lia|]. rewrite W. cbn. f_equal. lia.
  - inversion Hok as [|? ? Hc Hcs]; subst.
    rewrite conts_bytes_cons in *. rewrite <- !app_assoc in *.
    destruct f as [|f]; [lia|]. rewrite unfold_step.
    destruct cl as [|b l]; [contradiction|]. destruct Hc as [Hw Hv].
    rewrite (vchars_find_crlf (b :: l) _ Hv). cbv zeta.
    rewrite firstn_app_le by lia. rewrite firstn_all.
    rewrite (vchars_utf8_valid _ Hv). cbn [negb]. rewrite Hw, Hv. cbn [negb].
    assert (Hs : skipn (length (b :: l) + 2) ((b :: l) ++ CRLF ++ conts_bytes cs ++ rem) = conts_bytes cs ++ rem).
    { rewrite app_assoc. rewrite skipn_app.
      replace (length (b :: l) + 2 - length ((b :: l) ++ CRLF)) with 0 by (rewrite app_length; simpl; lia).
      rewrite skipn_all2 by (rewrite app_length; simpl; lia). reflexivity. }
    rewrite Hs. rewrite IH; [|exact Hcs|exact Hrem|rewrite !app_length in *; simpl in *; lia].
    cbn [unfolded fold_left]. f_equal. rewrite !app_length. simpl. lia.
Qed.

(* ---- completeness of one field step ---- *)
Lemma hdr_step_field_complete lim f rem :
  field_ok lim f -> stops_unfold rem ->
  hdr_step lim (field_bytes f ++ rem) = SField (field_header f) (length (field_bytes f)).
Proof.
  intros [Hn [Hv [Hc Hl]]] Hrem.
  pose proof (first_line_vchars f Hn Hv) as Hfl.
  unfold field_bytes. rewrite <- !app_assoc.
  unfold hdr_step.
  destruct (first_line f ++ CRLF ++ conts_bytes (f_conts f) ++ rem) as [|a0 s0] eqn:Es.
  { unfold first_line in Es. destruct (f_name f); discriminate. }
  rewrite <- Es.
  rewrite (vchars_find_crlf _ _ Hfl). rewrite Hl.
  assert (Hlen : length (first_line f) = S (length (f_name f) + length (f_seg0 f))).
  { unfold first_line. rewrite !app_length. simpl. lia. }
  destruct (length (first_line f)) as [|lt0] eqn:El; [lia|]. rewrite <- El. cbv zeta.
  rewrite firstn_app_le by lia. rewrite firstn_all.
  rewrite (vchars_utf8_valid _ Hfl). cbn [negb].
  destruct Hn as [Hg Hnc].
  assert (Hcol : find_byte COLON (first_line f) = Some (length (f_name f))).
  { unfold first_line. cbn [app]. apply find_byte_app_none. exact Hnc. }
  rewrite Hcol.
  assert (Hname : firstn (length (f_name f)) (first_line f) = f_name f).
  { unfold first_line. rewrite firstn_app_le by lia. apply firstn_all. }
  assert (Hval : skipn (S (length (f_name f))) (first_line f) = f_seg0 f).
  { unfold first_line. cbn [app]. apply skipn_app_cons. }
  rewrite Hname, Hval, Hg, Hv. cbn [negb].
  assert (Hs : skipn (length (first_line f) + 2)
                     (first_line f ++ CRLF ++ conts_bytes (f_conts f) ++ rem)
               = conts_bytes (f_conts f) ++ rem).
  { rewrite app_assoc. rewrite skipn_app.
    replace (length (first_line f) + 2 - length (first_line f ++ CRLF)) with 0
      by (rewrite app_length; simpl; lia).
    rewrite skipn_all2 by (rewrite app_length; simpl; lia). reflexivity. }
  rewrite Hs.
  rewrite (unfold_complete (f_conts f) rem (f_seg0 f) 0); [|exact Hc|exact Hrem|].
  - unfold field_header. f_equal. rewrite !app_length. simpl. lia.
  - rewrite !app_length. simpl. lia.
Qed.

Lemma field_bytes_stops lim f rem : field_ok lim f -> stops_unfold (field_bytes f ++ rem).
Proof.
  intros [Hn [Hv [Hc Hl]]]. pose proof (first_line_vchars f Hn Hv) as Hfl.
  exists (length (first_line f)). unfold field_bytes. rewrite <- !app_assoc.
  split; [apply vchars_find_crlf; exact Hfl|].
  rewrite firstn_app_le by lia. rewrite firstn_all.
  split; [apply vchars_utf8_valid; exact Hfl|].
  unfold first_line. destruct Hn as [Hg _].
  destruct (f_name f) as [|b n]; [reflexivity|].
  cbn [app]. simpl in Hg. apply andb_prop in Hg as [Hb _].
  unfold is_graphic in Hb. apply between_spec in Hb. unfold is_wsp.
  destruct (N.eqb b SP) eqn:E1; [apply N.eqb_eq in E1; subst; destruct Hb as [Hb _]; exfalso; apply Hb; reflexivity|].
  destruct (N.eqb b HT) eqn:E2; [apply N.eqb_eq in E2; subst; destruct Hb as [Hb _]; exfalso; apply Hb; reflexivity|].
  reflexivity.
Qed.

Lemma crlf_stops rest : stops_unfold (CRLF ++ rest).
Proof. exists 0. split; [reflexivity|]. split; reflexivity. Qed.

Lemma block_stops lim fs rest : Forall (field_ok lim) fs -> stops_unfold (header_block fs ++ rest).
Proof.
  intros H. unfold header_block. destruct fs as [|f fs].
  - apply crlf_stops.
  - inversion H; subst. cbn [flat_map]. rewrite <- !app_assoc. eapply field_bytes_stops. eassumption.
Qed.

(* ---- completeness of the block parser ---- *)
Theorem hdr_loop_complete lim fs : forall rest f acc off,
  block_ok lim fs -> length (header_block fs ++ rest) < f ->
  hdr_loop f lim (header_block fs ++ rest) acc off =
  HComplete (acc ++ map field_header fs) (off + length (header_block fs)).
Proof.
  induction fs as [|fd fs IH]; intros rest f acc off [Hok Hl2] Hf.
  - destruct f as [|f]; [lia|]. rewrite hdr_loop_step.
    unfold header_block. cbn [flat_map app].
    rewrite (hdr_step_done_intro lim (CRLF ++ rest) eq_refl Hl2).
    rewrite app_nil_r. reflexivity.
  - inversion Hok as [|? ? Hfd Hfs]; subst.
    destruct f as [|f]; [lia|]. rewrite hdr_loop_step.
    assert (Hb : header_block (fd :: fs) ++ rest = field_bytes fd ++ (header_block fs ++ rest)).
    { unfold header_block. cbn [flat_map]. rewrite <- !app_assoc. reflexivity. }
    rewrite Hb.
    rewrite (hdr_step_field_complete lim fd _ Hfd (block_stops lim fs rest Hfs)).
    rewrite skipn_app. rewrite Nat.sub_diag. rewrite skipn_all. cbn [skipn app].
    rewrite IH; [|split; assumption|].
    + cbn [map]. rewrite <- app_assoc. f_equal.
      unfold header_block. cbn [flat_map]. rewrite !app_length. lia.
    + rewrite Hb in Hf. rewrite app_length in Hf.
      assert (0 < length (field_bytes fd)).
      { unfold field_bytes. rewrite !app_length. simpl. lia. }
      lia.
Qed.

Theorem hdr_parse_complete lim hs0 fs rest :
  block_ok lim fs ->
  hdr_parse lim hs0 (header_block fs ++ rest) =
  HComplete (hs0 ++ map field_header fs) (length (header_block fs)).
Proof. intros H. unfold hdr_parse. rewrite hdr_loop_complete by (auto; lia). reflexivity. Qed.

(* ------------------------------------------------------------------ soundness *)
Lemma find_byte_split c s k : find_byte c s = Some k -> s = firstn k s ++ c :: skipn (S k) s.
Proof.
  revert k. induction s as [|a s IH]; intros k H; [discriminate|].
  simpl in H. destruct (N.eqb a c) eqn:E.
  - inversion H; subst. apply N.eqb_eq in E. subst. reflexivity.
  - destruct (find_byte c s) as [j|]; [|discriminate]. simpl in H. inversion H; subst.
    simpl. f_equal. apply IH. reflexivity.
Qed.

Lemma find_byte_firstn_none c s k : find_byte c s = Some k -> find_byte c (firstn k s) = None.
Proof.
  revert k. induction s as [|a s IH]; intros k H; [discriminate|].
  simpl in H. destruct (N.eqb a c) eqn:E.
  - inversion H; subst. reflexivity.
  - destruct (find_byte c s) as [j|]; [|discriminate]. simpl in H. inversion H; subst.
    simpl. rewrite E. rewrite (IH j eq_refl). reflexivity.
Qed.

Lemma line_split s lt :
  find_crlf s = Some lt -> s = firstn lt s ++ CRLF ++ skipn (lt + 2) s.
Proof.
  intros E. rewrite <- (firstn_skipn lt s) at 1. rewrite (find_crlf_at _ _ E). reflexivity.
Qed.

Lemma unfold_inv f : forall s v c v' c',
  unfold_hdr f s v c = UOk v' c' ->
  exists cs, Forall cont_ok cs /\ c <= c' /\ firstn (c' - c) s = conts_bytes cs /\ v' = unfolded v cs.
Proof.
  induction f as [|f IH]; intros s v c v' c' H; [discriminate|].
  rewrite unfold_step in H.
  destruct (find_crlf s) as [lt|] eqn:E; [|discriminate]. cbv zeta in H.
  pose proof (find_crlf_bound _ _ E) as B.
  destruct (negb (utf8_valid (firstn lt s))); [discriminate|].
  destruct (firstn lt s) as [|b l] eqn:L.
  { inversion H; subst. exists []. rewrite Nat.sub_diag. repeat split; auto. }
  destruct (is_wsp b) eqn:W.
  2:{ inversion H; subst. exists []. rewrite Nat.sub_diag. repeat split; auto. }
  destruct (negb (forallb is_vchar (b :: l))) eqn:V; [discriminate|].
  apply negb_false_iff in V.
  destruct (IH _ _ _ _ _ H) as [cs [Hcs [Hle [Hfn Hv]]]].
  exists ((b :: l) :: cs). split; [|split; [|split]].
  - constructor; [split; assumption|exact Hcs].
  - lia.
  - rewrite conts_bytes_cons. rewrite <- Hfn.
    replace (c' - c) with ((lt + 2) + (c' - (c + (lt + 2)))) by lia.
    rewrite firstn_plus. rewrite firstn_plus. rewrite L.
    rewrite (find_crlf_at _ _ E). cbn [firstn]. rewrite <- app_assoc. reflexivity.
  - rewrite Hv. reflexivity.
Qed.

Lemma hdr_step_nz lim s lt :
  find_crlf s = Some lt -> lt <> 0 ->
  hdr_step lim s =
  if over_limit (lt + 2) lim then SErr HTooLong else
  let line := firstn lt s in
  if negb (utf8_valid line) then SErr HNotText else
  match find_byte COLON line with
  | None => SErr HNoColon
  | Some k =>
    let name := firstn k line in
    let v0 := skipn (S k) line in
    if negb (forallb is_graphic name) then SErr HBadName else
    if negb (forallb is_vchar v0) then SErr HBadValue else
    match unfold_hdr (length s) (skipn (lt + 2) s) v0 0 with
    | UMore => SMore
    | UErr e => SErr e
    | UOk v c2 => SField (name, trim v) (lt + 2 + c2)
    end
  end.
Proof.
  intros E Hnz. unfold hdr_step. destruct s as [|a s']; [discriminate|].
  rewrite E. destruct lt as [|lt0]; [congruence|]. reflexivity.
Qed.

Lemma hdr_step_field_inv lim s h c :
  hdr_step lim s = SField h c ->
  exists fd, field_ok lim fd /\ firstn c s = field_bytes fd /\ h = field_header fd.
Proof.
  intros H.
  destruct (find_crlf s) as [lt|] eqn:E.
  2:{ unfold hdr_step in H. destruct s; [discriminate|]. rewrite E in H.
      destruct (over_limit _ lim); discriminate. }
  destruct (Nat.eq_dec lt 0) as [->|Hnz].
  { unfold hdr_step in H. destruct s; [discriminate|]. rewrite E in H.
    destruct (over_limit _ lim); discriminate. }
  rewrite (hdr_step_nz lim s lt E Hnz) in H. cbv zeta in H.
  pose proof (find_crlf_bound _ _ E) as B.
  destruct (over_limit (lt + 2) lim) eqn:O; [discriminate|].
  destruct (negb (utf8_valid (firstn lt s))); [discriminate|].
  destruct (find_byte COLON (firstn lt s)) as [k|] eqn:K; [|discriminate].
  destruct (negb (forallb is_graphic (firstn k (firstn lt s)))) eqn:G; [discriminate|].
  destruct (negb (forallb is_vchar (skipn (S k) (firstn lt s)))) eqn:V; [discriminate|].
  apply negb_false_iff in G, V.
  destruct (unfold_hdr (length s) (skipn (lt + 2) s) (skipn (S k) (firstn lt s)) 0) as [|e|v c2] eqn:U;
    try discriminate.
  assert (Hh : h = (firstn k (firstn lt s), trim v)) by congruence.
  assert (Hc : c = lt + 2 + c2) by congruence.
  subst h c. clear H.
  destruct (unfold_inv _ _ _ _ _ _ U) as [cs [Hcs [_ [Hfn Hv]]]].
  rewrite Nat.sub_0_r in Hfn.
  set (fd := {| f_name := firstn k (firstn lt s); f_seg0 := skipn (S k) (firstn lt s); f_conts := cs |}).
  assert (Hline : first_line fd = firstn lt s).
  { unfold first_line, fd. cbn [f_name f_seg0 app]. symmetry. apply find_byte_split. exact K. }
  assert (Hll : length (firstn lt s) = lt) by (rewrite firstn_length; lia).
  exists fd. split; [|split].
  - unfold field_ok. cbn [f_name f_seg0 f_conts fd]. split; [|split; [|split]].
    + split; [exact G|apply find_byte_firstn_none; exact K].
    + exact V.
    + exact Hcs.
    + rewrite Hline, Hll. exact O.
  - unfold field_bytes. rewrite Hline. cbn [f_conts fd]. rewrite <- Hfn.
    rewrite firstn_plus. rewrite firstn_plus.
    rewrite (find_crlf_at _ _ E). cbn [firstn]. rewrite <- app_assoc. reflexivity.
  - unfold field_header, fd. cbn [f_name f_seg0 f_conts]. rewrite Hv. reflexivity.
Qed.

Theorem hdr_loop_sound f lim : forall s acc off hs c,
  hdr_loop f lim s acc off = HComplete hs c ->
  exists fs, block_ok lim fs /\ off <= c /\ firstn (c - off) s = header_block fs /\
             hs = acc ++ map field_header fs.
Proof.
  induction f as [|f IH]; intros s acc off hs c H; [discriminate|].
  rewrite hdr_loop_step in H.
  destruct (hdr_step lim s) as [|e|c1|h c1] eqn:E; try discriminate.
  - inversion H; subst hs c. clear H.
    destruct (hdr_step_done_app lim s [] c1 E) as [_ [-> Hl]].
    destruct (hdr_step_done_inv _ _ _ E) as [F O].
    exists []. split; [split; [constructor|exact O]|]. split; [lia|]. split; [|rewrite app_nil_r; reflexivity].
    replace (off + 2 - off) with 2 by lia.
    rewrite (line_split _ _ F). reflexivity.
  - pose proof (hdr_step_field_pos _ _ _ _ E) as [Hpos Hcs].
    destruct (hdr_step_field_inv _ _ _ _ E) as [fd [Hfd [Hfb Hh]]].
    destruct (IH _ _ _ _ _ H) as [fs [[Hok O] [Hle [Hfn Hhs]]]].
    exists (fd :: fs). split; [split; [constructor; assumption|exact O]|]. split; [lia|]. split.
    + unfold header_block in *. cbn [flat_map]. rewrite <- app_assoc. rewrite <- Hfb, <- Hfn.
      replace (c - off) with (c1 + (c - (off + c1))) by lia. apply firstn_plus.
    + rewrite Hhs. cbn [map]. rewrite <- app_assoc. subst h. reflexivity.
Qed.

Theorem hdr_parse_sound lim hs0 s hs c :
  hdr_parse lim hs0 s = HComplete hs c ->
  exists fs, block_ok lim fs /\ firstn c s = header_block fs /\ hs = hs0 ++ map field_header fs.
Proof.
  unfold hdr_parse. intros H. destruct (hdr_loop_sound _ _ _ _ _ _ _ H) as [fs [Hok [_ [Hfn Hhs]]]].
  rewrite Nat.sub_0_r in Hfn. exists fs. split; [exact Hok|split; [exact Hfn|exact Hhs]].
Qed.

(* the grammar determines the fields: decomposition is unique *)
Theorem header_block_functional lim fs fs' :
  block_ok lim fs -> block_ok lim fs' -> header_block fs = header_block fs' ->
  map field_header fs = map field_header fs'.
Proof.
  intros H1 H2 He.
  pose proof (hdr_parse_complete lim [] fs [] H1) as E1.
  pose proof (hdr_parse_complete lim [] fs' [] H2) as E2.
  rewrite !app_nil_r in *. rewrite He in E1. rewrite E1 in E2. inversion E2. reflexivity.
Qed.
