(* C05 -- chunked decoding recovers exactly the payload and trailers, nothing else. *)
From Coq Require Import String.
From Http Require Import Model.Bytes Model.Utf8 Model.Num Model.Headers Model.Request Model.Chunked
     Spec.Delivery Spec.ChunkedGrammar Proofs.ChunkResume Proofs.ChunkGrammar Proofs.FeedGeneric
     Proofs.C02Response Spec.Rejections Proofs.ChunkRejects.

(* The grammar (Spec/ChunkedGrammar.v), pinned: *)
Check (IC_last : forall line block fields,
          size_line line 0 -> is_trailer block fields -> IsChunked (line ++ CRLF ++ block) [] fields).
Check (IC_chunk : forall line n data rest payload fields,
          size_line line n -> n <> 0%N -> length data = N.to_nat n -> IsChunked rest payload fields ->
          IsChunked (line ++ CRLF ++ data ++ CRLF ++ rest) (data ++ payload) fields).
Check (eq_refl : size_line = fun line n =>
          is_line line /\ utf8_valid line = true /\ parse_hex (size_field line) = Some n).

(* round trip: every well-formed chunked encoding (any partition into chunks, hex case, leading
   zeros, any extension text, any trailer fields) decodes to exactly its payload and trailers and
   stops exactly at its end, whatever follows *)
Theorem C05_decodes_exactly :
  forall (c payload : bytes) (trailers : list header) (rest : bytes),
    IsChunked c payload trailers ->
    chunk_decode chunk_init (c ++ rest) =
    ({| c_phase := CTrailer; c_buffer := payload; c_trailer := trailers |}, Complete (length c)).
Proof. intros c p t rest H. exact (chunk_decode_complete c p t rest H). Qed.
Print Assumptions C05_decodes_exactly.

(* conversely: completion is reported only for a well-formed chunked body, whose payload is
   the concatenation of the declared data ranges and nothing else *)
Theorem C05_complete_only_if_wellformed :
  forall (s : bytes) (st : chunk_state) (n : nat),
    chunk_decode chunk_init s = (st, Complete n) ->
    IsChunked (firstn n s) (c_buffer st) (c_trailer st).
Proof. exact chunk_decode_sound. Qed.
Print Assumptions C05_complete_only_if_wellformed.

Theorem C05_grammar_unambiguous :
  forall c p t p' t', IsChunked c p t -> IsChunked c p' t' -> p = p' /\ t = t'.
Proof. exact IsChunked_functional. Qed.
Print Assumptions C05_grammar_unambiguous.

(* under all delivery segmentations: the decoder alone ... *)
Theorem C05_delivery_independent :
  forall ds : list bytes, ds <> [] ->
    feq chunk_state same_chunks
        (feed _ chunk_decode chunk_init [] ds 0)
        (feed _ chunk_decode chunk_init [] [concat ds] 0).
Proof. exact chunked_delivery_independent. Qed.
Print Assumptions C05_delivery_independent.

(* ... so a well-formed body is decoded exactly under every way of cutting it *)
Corollary C05_decodes_exactly_under_any_delivery :
  forall (c payload : bytes) (trailers : list header) (ds : list bytes),
    IsChunked c payload trailers -> ds <> [] -> concat ds = c ->
    exists rest,
      feed _ chunk_decode chunk_init [] ds 0 =
      Done {| c_phase := CTrailer; c_buffer := payload; c_trailer := trailers |} (length c) rest.
Proof.
  intros c p t ds H Hne Hc.
  pose proof (chunked_delivery_independent ds Hne) as HF. rewrite Hc in HF.
  rewrite feed_one in HF. cbn [app] in HF.
  pose proof (chunk_decode_complete c p t [] H) as HD. rewrite app_nil_r in HD. rewrite HD in HF.
  destruct (feed chunk_state chunk_decode chunk_init [] ds 0) as [s1 t1 r1|s1 t1 p1|e1]; cbn [feq] in HF;
    try contradiction.
  destruct HF as [-> ->]. exists r1. reflexivity.
Qed.
Print Assumptions C05_decodes_exactly_under_any_delivery.

(* rejections: the decoder rejects with category e exactly when the input consists of well-formed
   chunks followed by a first offending element of that category (Spec/Rejections.v) *)
Theorem C05_rejection_names_first_defect :
  forall s e, (exists st, chunk_decode chunk_init s = (st, Reject e)) <-> chunked_defect s e.
Proof. exact chunk_reject_iff. Qed.
Print Assumptions C05_rejection_names_first_defect.

(* non-vacuity *)
Example C05_example :
  IsChunked (str "5;x=y"%string ++ CRLF ++ str "hello"%string ++ CRLF
             ++ str "000"%string ++ CRLF ++ str "A: b"%string ++ CRLF ++ CRLF)
            (str "hello"%string) [(str "A"%string, str "b"%string)].
Proof.
  apply (IC_chunk (str "5;x=y"%string) 5%N (str "hello"%string)
                  (str "000"%string ++ CRLF ++ str "A: b"%string ++ CRLF ++ CRLF) [] _).
  - repeat split.
  - discriminate.
  - reflexivity.
  - apply (IC_last (str "000"%string) (str "A: b"%string ++ CRLF ++ CRLF)).
    + repeat split.
    + reflexivity.
Qed.
Example C05_rejections :
  snd (chunk_decode chunk_init (str "g"%string ++ CRLF)) = Reject EInvalidChunkSize
  /\ snd (chunk_decode chunk_init CRLF) = Reject EInvalidChunkSize
  /\ snd (chunk_decode chunk_init (str "10000000000000000"%string ++ CRLF)) = Reject EInvalidChunkSize
  /\ snd (chunk_decode chunk_init (str "1"%string ++ CRLF ++ str "ab"%string)) = Reject EInvalidChunkTerminator
  /\ snd (chunk_decode chunk_init (str "5"%string ++ [CR] ++ str "x"%string ++ CRLF)) = Reject EInvalidChunkSize
  /\ snd (chunk_decode chunk_init (str "+5"%string ++ CRLF)) = Reject EInvalidChunkSize
  /\ snd (chunk_decode chunk_init (str "0"%string ++ CRLF ++ str "bad"%string ++ CRLF)) = Reject (ETrailer HNoColon).
Proof. vm_compute. repeat split. Qed.
