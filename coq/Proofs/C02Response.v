(* C02Response.v -- the generic delivery theorem instantiated for Response::parse. *)
From Coq Require Import Lia.
From Http Require Import Model.Bytes Model.Request Model.Chunked Model.Response Spec.Delivery
     Proofs.ChunkResume Proofs.RespResume Proofs.FeedGeneric.

Lemma resp_resumable : resumable resp_state resp_parse rwf same_response.
Proof.
  intros st a b Hinv.
  pose proof (resp_parse_spec st a b Hinv) as HS. unfold rspec in HS.
  destruct (resp_parse st a) as [st1 [c|c|e]]; exact HS.
Qed.

Theorem response_delivery_independent ds :
  ds <> [] ->
  feq resp_state same_response
      (feed resp_state resp_parse resp_init [] ds 0)
      (feed resp_state resp_parse resp_init [] [concat ds] 0).
Proof.
  intros Hne.
  apply (feed_concat resp_state resp_parse rwf same_response).
  - exact same_response_refl.
  - exact same_response_trans.
  - exact same_response_shift.
  - exact resp_resumable.
  - exact Hne.
  - exact rwf_init.
Qed.

(* the chunk decoder on its own (C05, delivery part) *)
Definition same_chunks (s1 : chunk_state) (t1 : nat) (s2 : chunk_state) (t2 : nat) : Prop :=
  s1 = s2 /\ t1 = t2.

Lemma chunk_resumable : resumable chunk_state chunk_decode cwf same_chunks.
Proof.
  intros st a b Hinv.
  pose proof (chunk_decode_app st a b Hinv) as HS.
  destruct (chunk_decode st a) as [st1 [c|c|e]].
  - destruct HS as [Hc HS]. split; [exact Hc|]. exists st1, c. split; [exact HS|split; reflexivity].
  - exact HS.
  - exact HS.
Qed.

Theorem chunked_delivery_independent ds :
  ds <> [] ->
  feq chunk_state same_chunks
      (feed chunk_state chunk_decode chunk_init [] ds 0)
      (feed chunk_state chunk_decode chunk_init [] [concat ds] 0).
Proof.
  intros Hne.
  apply (feed_concat chunk_state chunk_decode cwf same_chunks).
  - intros s c. split; reflexivity.
  - intros s1 c1 s2 c2 s3 c3 [-> ->] [-> ->]. split; reflexivity.
  - intros k s1 c1 s2 c2 [-> ->]. split; reflexivity.
  - exact chunk_resumable.
  - exact Hne.
  - exact cwf_init.
Qed.
