(* HeadersResume.v -- the header-block parser is resumable: what it answers on a
   buffer followed by more bytes is what it answers when it is called again with
   the unconsumed rest followed by those bytes. *)
From Coq Require Import Lia.
From Http Require Import Model.Bytes Model.Utf8 Model.Headers Proofs.BytesLemmas.

Definition hshift (k : nat) (r : hres) : hres :=
  match r with
  | HComplete hs c => HComplete hs (k + c)
  | HIncomplete hs c => HIncomplete hs (k + c)
  | HError e => HError e
  end.

(* the only way more input can invalidate an answer about an unterminated line:
   the buffer ends with CR and the next byte is LF, under a line limit *)
Definition side (lim : option N) (s u : bytes) : Prop :=
  lim = None \/ (ends_cr s && starts_lf u)%bool = false.

Lemma over_limit_mono n m lim : n <= m -> over_limit n lim = true -> over_limit m lim = true.
Proof.
  unfold over_limit. destruct lim as [l|]; [|discriminate].
  intros H. rewrite !N.ltb_lt. lia.
Qed.

Lemma over_limit_none n : over_limit n None = false.
Proof. reflexivity. Qed.

(* ---- unfold_hdr ---- *)
Lemma unfold_step f s v c :
  unfold_hdr (S f) s v c =
  match find_crlf s with
  | None => UMore
  | Some lt =>
    let line := firstn lt s in
    if negb (utf8_valid line) then UErr HNotText else
    match line with
    | b :: _ =>
      if is_wsp b then
        if negb (forallb is_vchar line) then UErr HBadValue else
        unfold_hdr f (skipn (lt + 2) s) (v ++ [SP] ++ trim line) (c + (lt + 2))
      else UOk v c
    | [] => UOk v c
    end
  end.
Proof. reflexivity. Qed.

Lemma unfold_app f s u v c :
  unfold_hdr f s v c <> UMore -> unfold_hdr f (s ++ u) v c = unfold_hdr f s v c.
Proof.
  revert s v c. induction f as [|f IH]; intros s v c H; [simpl in H; congruence|].
  rewrite (unfold_step f s) in *. rewrite (unfold_step f (s ++ u)).
  destruct (find_crlf s) as [lt|] eqn:E; [|congruence].
  pose proof (find_crlf_bound _ _ E) as B.
  rewrite (find_crlf_app _ u _ E). cbv zeta in *.
  rewrite firstn_app_le by lia.
  destruct (negb (utf8_valid (firstn lt s))); [reflexivity|].
  destruct (firstn lt s) as [|b l] eqn:L; [reflexivity|].
  destruct (is_wsp b); [|reflexivity].
  destruct (negb (forallb is_vchar (b :: l))); [reflexivity|].
  rewrite skipn_app_le by lia. apply IH. exact H.
Qed.

Lemma unfold_fuel_mono f f' s v c :
  unfold_hdr f s v c <> UMore -> f <= f' -> unfold_hdr f' s v c = unfold_hdr f s v c.
Proof.
  revert f' s v c. induction f as [|f IH]; intros f' s v c H Hle; [simpl in H; congruence|].
  destruct f' as [|f']; [lia|].
  rewrite (unfold_step f s) in *. rewrite (unfold_step f' s).
  destruct (find_crlf s) as [lt|] eqn:E; [|congruence]. cbv zeta in *.
  destruct (negb (utf8_valid (firstn lt s))); [reflexivity|].
  destruct (firstn lt s) as [|b l] eqn:L; [reflexivity|].
  destruct (is_wsp b); [|reflexivity].
  destruct (negb (forallb is_vchar (b :: l))); [reflexivity|].
  apply IH; [exact H|lia].
Qed.

Lemma unfold_ok_bound f s v c v' c' :
  unfold_hdr f s v c = UOk v' c' -> c <= c' /\ c' <= c + length s.
Proof.
  revert s v c. induction f as [|f IH]; intros s v c H; [discriminate|].
  rewrite unfold_step in H.
  destruct (find_crlf s) as [lt|] eqn:E; [|discriminate]. cbv zeta in H.
  pose proof (find_crlf_bound _ _ E) as B.
  destruct (negb (utf8_valid (firstn lt s))); [discriminate|].
  destruct (firstn lt s) as [|b l] eqn:L; [inversion H; subst; lia|].
  destruct (is_wsp b); [|inversion H; subst; lia].
  destruct (negb (forallb is_vchar (b :: l))); [discriminate|].
  apply IH in H. rewrite skipn_length in H. lia.
Qed.

(* ---- hdr_step ---- *)
Lemma hdr_step_field_app lim s u h c :
  hdr_step lim s = SField h c ->
  hdr_step lim (s ++ u) = SField h c /\ 0 < c /\ c <= length s.
Proof.
  unfold hdr_step. destruct s as [|a s']; [discriminate|].
  remember (a :: s') as s eqn:Hs.
  assert (Hne : s ++ u = a :: (s' ++ u)) by (subst; reflexivity).
  rewrite Hne. rewrite <- Hne. clear Hne.
  destruct (find_crlf s) as [lt|] eqn:E.
  2:{ destruct (over_limit (length s + 2) lim); discriminate. }
  pose proof (find_crlf_bound _ _ E) as B.
  rewrite (find_crlf_app _ u _ E).
  destruct (over_limit (lt + 2) lim); [discriminate|].
  destruct lt as [|lt']; [discriminate|].
  set (lt := S lt') in *. cbv zeta.
  rewrite firstn_app_le by lia.
  destruct (negb (utf8_valid (firstn lt s))); [discriminate|].
  destruct (find_byte COLON (firstn lt s)) as [k|]; [|discriminate].
  destruct (negb (forallb is_graphic (firstn k (firstn lt s)))); [discriminate|].
  destruct (negb (forallb is_vchar (skipn (S k) (firstn lt s)))); [discriminate|].
  destruct (unfold_hdr (length s) (skipn (lt + 2) s) (skipn (S k) (firstn lt s)) 0)
    as [|e|v c2] eqn:U; try discriminate.
  intros H. inversion H; subst h c. clear H.
  assert (U' : unfold_hdr (length (s ++ u)) (skipn (lt + 2) (s ++ u))
                          (skipn (S k) (firstn lt s)) 0 = UOk v c2).
  { rewrite skipn_app_le by lia.
    rewrite (unfold_fuel_mono (length s)).
    - rewrite unfold_app; [exact U|rewrite U; discriminate].
    - rewrite unfold_app; rewrite U; discriminate.
    - rewrite app_length. lia. }
  destruct s; [discriminate|]. rewrite U'.
  split; [reflexivity|].
  apply unfold_ok_bound in U. rewrite skipn_length in U. lia.
Qed.

Lemma hdr_step_done_app lim s u c :
  hdr_step lim s = SDone c ->
  hdr_step lim (s ++ u) = SDone c /\ c = 2 /\ c <= length s.
Proof.
  unfold hdr_step. destruct s as [|a s']; [discriminate|].
  remember (a :: s') as s eqn:Hs.
  destruct (find_crlf s) as [lt|] eqn:E.
  2:{ destruct (over_limit (length s + 2) lim); discriminate. }
  pose proof (find_crlf_bound _ _ E) as B.
  assert (Hne : s ++ u = a :: (s' ++ u)) by (subst; reflexivity).
  rewrite Hne. rewrite <- Hne.
  rewrite (find_crlf_app _ u _ E).
  destruct (over_limit (lt + 2) lim); [discriminate|].
  destruct lt as [|lt'].
  - intros H. inversion H. subst. split; [reflexivity|]. split; [reflexivity|]. lia.
  - cbv zeta. rewrite firstn_app_le by lia.
    destruct (negb (utf8_valid (firstn (S lt') s))); [discriminate|].
    destruct (find_byte COLON (firstn (S lt') s)) as [k|]; [|discriminate].
    destruct (negb (forallb is_graphic (firstn k (firstn (S lt') s)))); [discriminate|].
    destruct (negb (forallb is_vchar (skipn (S k) (firstn (S lt') s)))); [discriminate|].
    destruct (unfold_hdr _ _ _ _); discriminate.
Qed.

Lemma hdr_step_err_app lim s u e :
  side lim s u -> hdr_step lim s = SErr e -> exists e', hdr_step lim (s ++ u) = SErr e'.
Proof.
  intros Hside. unfold hdr_step. destruct s as [|a s']; [discriminate|].
  remember (a :: s') as s eqn:Hs.
  assert (Hne : s ++ u = a :: (s' ++ u)) by (subst; reflexivity).
  rewrite Hne. rewrite <- Hne. clear Hne.
  destruct (find_crlf s) as [lt|] eqn:E.
  - pose proof (find_crlf_bound _ _ E) as B.
    rewrite (find_crlf_app _ u _ E).
    destruct (over_limit (lt + 2) lim); [intros _; eexists; reflexivity|].
    destruct lt as [|lt']; [discriminate|].
    set (lt := S lt') in *. cbv zeta.
    rewrite firstn_app_le by lia.
    destruct (negb (utf8_valid (firstn lt s))); [intros _; eexists; reflexivity|].
    destruct (find_byte COLON (firstn lt s)) as [k|]; [|intros _; eexists; reflexivity].
    destruct (negb (forallb is_graphic (firstn k (firstn lt s)))); [intros _; eexists; reflexivity|].
    destruct (negb (forallb is_vchar (skipn (S k) (firstn lt s)))); [intros _; eexists; reflexivity|].
    destruct (unfold_hdr (length s) (skipn (lt + 2) s) (skipn (S k) (firstn lt s)) 0)
      as [|e0|v c2] eqn:U; try discriminate.
    intros _.
    assert (U' : unfold_hdr (length (s ++ u)) (skipn (lt + 2) (s ++ u))
                            (skipn (S k) (firstn lt s)) 0 = UErr e0).
    { rewrite skipn_app_le by lia.
      rewrite (unfold_fuel_mono (length s)).
      - rewrite unfold_app; [exact U|rewrite U; discriminate].
      - rewrite unfold_app; rewrite U; discriminate.
      - rewrite app_length. lia. }
    rewrite U'. eexists; reflexivity.
  - destruct (over_limit (length s + 2) lim) eqn:O; [|discriminate].
    intros _.
    destruct (find_crlf (s ++ u)) as [lt|] eqn:E2.
    + assert (length s <= lt).
      { destruct Hside as [Hn|Hs']; [subst lim; discriminate|].
        eapply find_crlf_app_none_strict; eassumption. }
      rewrite (over_limit_mono (length s + 2) (lt + 2) lim) by (lia || assumption).
      eexists; reflexivity.
    + rewrite (over_limit_mono (length s + 2) (length (s ++ u) + 2) lim).
      * eexists; reflexivity.
      * rewrite app_length. lia.
      * assumption.
Qed.

(* ---- the loop ---- *)
Lemma hdr_loop_step f lim s acc off :
  hdr_loop (S f) lim s acc off =
  match hdr_step lim s with
  | SMore => HIncomplete acc off
  | SErr e => HError e
  | SDone c => HComplete acc (off + c)
  | SField h c => hdr_loop f lim (skipn c s) (acc ++ [h]) (off + c)
  end.
Proof. reflexivity. Qed.

Lemma hdr_step_field_pos lim s h c : hdr_step lim s = SField h c -> 0 < c /\ c <= length s.
Proof. intros H. apply (hdr_step_field_app lim s []) in H. tauto. Qed.

Lemma hdr_loop_fuel f1 f2 lim s acc off :
  length s < f1 -> length s < f2 -> hdr_loop f1 lim s acc off = hdr_loop f2 lim s acc off.
Proof.
  revert f2 s acc off. induction f1 as [|f1 IH]; intros f2 s acc off H1 H2; [lia|].
  destruct f2 as [|f2]; [lia|].
  rewrite !hdr_loop_step.
  destruct (hdr_step lim s) as [|e|c|h c] eqn:E; try reflexivity.
  apply hdr_step_field_pos in E.
  apply IH; rewrite skipn_length; lia.
Qed.

Lemma ends_cr_skipn c s : c < length s -> ends_cr (skipn c s) = ends_cr s.
Proof.
  intros H. rewrite <- (firstn_skipn c s) at 2.
  unfold ends_cr. rewrite rev_app_distr.
  destruct (rev (skipn c s)) as [|x r] eqn:R.
  - apply (f_equal (@length N)) in R. rewrite rev_length, skipn_length in R. simpl in R. lia.
  - reflexivity.
Qed.

Lemma side_skipn lim s u c : side lim s u -> side lim (skipn c s) u.
Proof.
  intros [H|H]; [left; exact H|right].
  destruct (Nat.lt_ge_cases c (length s)) as [L|L].
  - rewrite ends_cr_skipn by exact L. exact H.
  - rewrite skipn_all2 by exact L. reflexivity.
Qed.

Lemma hdr_loop_app f lim s u acc off :
  length s < f -> side lim s u ->
  match hdr_loop f lim s acc off with
  | HComplete hs c =>
      off <= c /\ c <= off + length s /\
      forall f', length (s ++ u) < f' -> hdr_loop f' lim (s ++ u) acc off = HComplete hs c
  | HIncomplete hs c =>
      off <= c /\ c <= off + length s /\
      forall f', length (s ++ u) < f' ->
        hdr_loop f' lim (s ++ u) acc off = hdr_loop f' lim (skipn (c - off) s ++ u) hs c
  | HError e =>
      forall f', length (s ++ u) < f' -> exists e', hdr_loop f' lim (s ++ u) acc off = HError e'
  end.
Proof.
  revert s acc off. induction f as [|f IH]; intros s acc off Hf Hside; [lia|].
  rewrite hdr_loop_step.
  destruct (hdr_step lim s) as [|e|c|h c] eqn:E.
  - (* SMore *)
    split; [lia|]. split; [lia|]. intros f' _.
    replace (off - off) with 0 by lia. reflexivity.
  - (* SErr *)
    intros f' Hf'. destruct f' as [|f']; [lia|].
    destruct (hdr_step_err_app lim s u e Hside E) as [e' E'].
    exists e'. rewrite hdr_loop_step, E'. reflexivity.
  - (* SDone *)
    destruct (hdr_step_done_app lim s u c E) as [E' [-> Hc]].
    split; [lia|]. split; [lia|]. intros f' Hf'. destruct f' as [|f']; [lia|].
    rewrite hdr_loop_step, E'. reflexivity.
  - (* SField *)
    destruct (hdr_step_field_app lim s u h c E) as [E' [Hpos Hc]].
    assert (Hlen : length (skipn c s) < f) by (rewrite skipn_length; lia).
    specialize (IH (skipn c s) (acc ++ [h]) (off + c) Hlen (side_skipn _ _ _ c Hside)).
    rewrite skipn_length in IH.
    destruct (hdr_loop f lim (skipn c s) (acc ++ [h]) (off + c)) as [hs c1|hs c1|e1].
    + destruct IH as [I1 [I2 I3]]. split; [lia|]. split; [lia|].
      intros f' Hf'. destruct f' as [|f']; [lia|].
      rewrite hdr_loop_step, E'. rewrite skipn_app_le by lia.
      apply I3. rewrite app_length, skipn_length. rewrite app_length in Hf'. lia.
    + destruct IH as [I1 [I2 I3]]. split; [lia|]. split; [lia|].
      intros f' Hf'. destruct f' as [|f']; [lia|].
      rewrite hdr_loop_step, E'. rewrite skipn_app_le by lia.
      rewrite I3 by (rewrite app_length, skipn_length; rewrite app_length in Hf'; lia).
      rewrite skipn_skipn'.
      replace (c1 - (off + c) + c) with (c1 - off) by lia.
      apply hdr_loop_fuel; rewrite app_length, skipn_length; rewrite app_length in Hf'; lia.
    + intros f' Hf'. destruct f' as [|f']; [lia|].
      rewrite hdr_loop_step, E'. rewrite skipn_app_le by lia.
      apply IH. rewrite app_length, skipn_length. rewrite app_length in Hf'. lia.
Qed.

(* ---- the theorem used by the request, response and chunk parsers ---- *)
Theorem hdr_parse_app lim hs s u :
  side lim s u ->
  match hdr_parse lim hs s with
  | HComplete hs' c =>
      c <= length s /\ hdr_parse lim hs (s ++ u) = HComplete hs' c
  | HIncomplete hs' c =>
      c <= length s /\
      hdr_parse lim hs (s ++ u) = hshift c (hdr_parse lim hs' (skipn c s ++ u))
  | HError e => exists e', hdr_parse lim hs (s ++ u) = HError e'
  end.
Proof.
  intros Hside. unfold hdr_parse.
  pose proof (hdr_loop_app (S (length s)) lim s u hs 0 (Nat.lt_succ_diag_r _) Hside) as H.
  destruct (hdr_loop (S (length s)) lim s hs 0) as [hs' c|hs' c|e].
  - destruct H as [_ [Hc H]]. split; [lia|]. apply H. lia.
  - destruct H as [_ [Hc H]]. split; [lia|].
    rewrite H by lia. replace (c - 0) with c by lia.
    (* shift the offset out *)
    assert (Hoff : forall f s0 acc off, hdr_loop f lim s0 acc off = hshift off (hdr_loop f lim s0 acc 0)).
    { clear. induction f as [|f IH]; intros s0 acc off.
      - simpl. f_equal. lia.
      - rewrite !hdr_loop_step. destruct (hdr_step lim s0) as [|e|c|h c]; simpl; try (f_equal; lia).
        rewrite (IH _ _ (off + c)), (IH _ _ (0 + c)).
        destruct (hdr_loop f lim (skipn c s0) (acc ++ [h]) 0); simpl; f_equal; lia. }
    rewrite Hoff. f_equal.
    apply hdr_loop_fuel; rewrite !app_length, skipn_length; lia.
  - apply H. lia.
Qed.

Lemma hdr_step_done_inv lim s c :
  hdr_step lim s = SDone c -> find_crlf s = Some 0 /\ over_limit 2 lim = false.
Proof.
  unfold hdr_step. destruct s as [|a s']; [discriminate|].
  destruct (find_crlf (a :: s')) as [lt|].
  - destruct (over_limit (lt + 2) lim) eqn:O; [discriminate|].
    destruct lt as [|lt'].
    + intros _. split; [reflexivity|exact O].
    + cbv zeta.
      destruct (negb (utf8_valid _)); [discriminate|].
      destruct (find_byte _ _); [|discriminate].
      destruct (negb (forallb is_graphic _)); [discriminate|].
      destruct (negb (forallb is_vchar _)); [discriminate|].
      destruct (unfold_hdr _ _ _ _); discriminate.
  - destruct (over_limit _ lim); discriminate.
Qed.

Lemma hdr_step_done_intro lim s :
  find_crlf s = Some 0 -> over_limit 2 lim = false -> hdr_step lim s = SDone 2.
Proof.
  intros F O. unfold hdr_step. destruct s as [|a s']; [discriminate|].
  rewrite F. change (0 + 2) with 2. rewrite O. reflexivity.
Qed.

(* ------------------------------------------------------------------ locality:
   a Complete answer depends only on the bytes it consumed *)

Lemma unfold_firstn f s v c v' c' lt' n :
  unfold_hdr f s v c = UOk v' c' ->
  find_crlf (skipn (c' - c) s) = Some lt' -> (c' - c) + lt' + 2 <= n ->
  unfold_hdr f (firstn n s) v c = UOk v' c'.
Proof.
  revert s v c n. induction f as [|f IH]; intros s v c n H Hl Hn; [discriminate|].
  rewrite unfold_step in *.
  destruct (find_crlf s) as [lt|] eqn:E; [|discriminate]. cbv zeta in *.
  pose proof (find_crlf_bound _ _ E) as B.
  assert (Hc : c <= c').
  { destruct (negb (utf8_valid (firstn lt s))); [discriminate|].
    destruct (firstn lt s) as [|b l]; [inversion H; lia|].
    destruct (is_wsp b); [|inversion H; lia].
    destruct (negb (forallb is_vchar (b :: l))); [discriminate|].
    apply unfold_ok_bound in H. lia. }
  destruct (negb (utf8_valid (firstn lt s))) eqn:U; [discriminate|].
  destruct (firstn lt s) as [|b l] eqn:L.
  - inversion H; subst v' c'. replace (c - c) with 0 in * by lia.
    change (skipn 0 s) with s in Hl. rewrite E in Hl. inversion Hl; subst lt'.
    rewrite (find_crlf_firstn _ _ _ E) by lia.
    rewrite firstn_firstn_le by lia. rewrite L, U. reflexivity.
  - destruct (is_wsp b) eqn:W.
    + destruct (negb (forallb is_vchar (b :: l))) eqn:V; [discriminate|].
      pose proof (unfold_ok_bound _ _ _ _ _ _ H) as Bd.
      rewrite (find_crlf_firstn _ _ _ E) by lia.
      rewrite firstn_firstn_le by lia. rewrite L, U, W, V.
      rewrite skipn_firstn_comm'. apply IH; [exact H| |lia].
      rewrite skipn_skipn'. replace (c' - (c + (lt + 2)) + (lt + 2)) with (c' - c) by lia.
      exact Hl.
    + inversion H; subst v' c'. replace (c - c) with 0 in * by lia.
      change (skipn 0 s) with s in Hl. rewrite E in Hl. inversion Hl; subst lt'.
      rewrite (find_crlf_firstn _ _ _ E) by lia.
      rewrite firstn_firstn_le by lia. rewrite L, U, W. reflexivity.
Qed.

Lemma unfold_ok_next f s v c v' c' :
  unfold_hdr f s v c = UOk v' c' -> exists lt', find_crlf (skipn (c' - c) s) = Some lt'.
Proof.
  revert s v c. induction f as [|f IH]; intros s v c H; [discriminate|].
  rewrite unfold_step in H.
  destruct (find_crlf s) as [lt|] eqn:E; [|discriminate]. cbv zeta in H.
  pose proof (find_crlf_bound _ _ E) as B.
  destruct (negb (utf8_valid (firstn lt s))); [discriminate|].
  destruct (firstn lt s) as [|b l].
  - inversion H; subst. replace (c' - c') with 0 by lia. exists lt. exact E.
  - destruct (is_wsp b).
    + destruct (negb (forallb is_vchar (b :: l))); [discriminate|].
      pose proof (unfold_ok_bound _ _ _ _ _ _ H) as Bd.
      destruct (IH _ _ _ H) as [lt' Hl]. exists lt'.
      rewrite skipn_skipn' in Hl.
      replace (c' - (c + (lt + 2)) + (lt + 2)) with (c' - c) in Hl by lia. exact Hl.
    + inversion H; subst. replace (c' - c') with 0 by lia. exists lt. exact E.
Qed.

(* a field step is decided by the field plus the terminated line that follows it *)
Lemma hdr_step_field_firstn lim s h c lt' n :
  hdr_step lim s = SField h c ->
  find_crlf (skipn c s) = Some lt' -> c + lt' + 2 <= n ->
  hdr_step lim (firstn n s) = SField h c.
Proof.
  intros H Hl Hn.
  pose proof (hdr_step_field_pos _ _ _ _ H) as [Hpos Hcs].
  pose proof (find_crlf_bound _ _ Hl) as Bl. rewrite skipn_length in Bl.
  unfold hdr_step in *. destruct s as [|a s']; [discriminate|].
  remember (a :: s') as s eqn:Hs.
  destruct (firstn n s) as [|a' p'] eqn:P.
  { apply (f_equal (@length N)) in P. rewrite firstn_length in P. simpl in P. subst s. simpl in *. lia. }
  rewrite <- P. clear P a' p'.
  destruct (find_crlf s) as [lt|] eqn:E.
  2:{ destruct (over_limit (length s + 2) lim); discriminate. }
  pose proof (find_crlf_bound _ _ E) as B.
  destruct (over_limit (lt + 2) lim) eqn:O; [discriminate|].
  destruct lt as [|lt0]; [discriminate|].
  set (lt := S lt0) in *. cbv zeta in *.
  destruct (negb (utf8_valid (firstn lt s))) eqn:U; [discriminate|].
  destruct (find_byte COLON (firstn lt s)) as [k|] eqn:K; [|discriminate].
  destruct (negb (forallb is_graphic (firstn k (firstn lt s)))) eqn:G; [discriminate|].
  destruct (negb (forallb is_vchar (skipn (S k) (firstn lt s)))) eqn:V; [discriminate|].
  destruct (unfold_hdr (length s) (skipn (lt + 2) s) (skipn (S k) (firstn lt s)) 0)
    as [|e|v c2] eqn:Un; try discriminate.
  inversion H; subst h c. clear H.
  pose proof (unfold_ok_bound _ _ _ _ _ _ Un) as Bu.
  assert (Hn' : lt + 2 <= n) by lia.
  rewrite (find_crlf_firstn _ _ _ E) by lia. rewrite O.
  fold lt. rewrite firstn_firstn_le by lia. rewrite U, K, G, V.
  rewrite skipn_firstn_comm'.
  assert (Un' : unfold_hdr (length (firstn n s)) (firstn (n - (lt + 2)) (skipn (lt + 2) s))
                           (skipn (S k) (firstn lt s)) 0 = UOk v c2).
  { assert (Un2 : unfold_hdr (length s) (firstn (n - (lt + 2)) (skipn (lt + 2) s))
                             (skipn (S k) (firstn lt s)) 0 = UOk v c2).
    { eapply unfold_firstn; [exact Un| |].
      - rewrite skipn_skipn'. replace (c2 - 0 + (lt + 2)) with (lt + 2 + c2) by lia. exact Hl.
      - lia. }
    (* fuel: length (firstn n s) vs length s -- the answer is UOk so any larger fuel agrees;
       here the fuel may be smaller, so re-derive with the smaller fuel via monotonicity from
       the fuel actually needed: length of the argument *)
    assert (Hfuel : forall f1 f2 x v0 c0, length x < f1 -> length x < f2 ->
                       unfold_hdr f1 x v0 c0 = unfold_hdr f2 x v0 c0).
    { clear. induction f1 as [|f1 IH]; intros f2 x v0 c0 H1 H2; [lia|].
      destruct f2 as [|f2]; [lia|]. rewrite (unfold_step f1), (unfold_step f2).
      destruct (find_crlf x) as [l|] eqn:E; [|reflexivity]. cbv zeta.
      pose proof (find_crlf_bound _ _ E).
      destruct (negb (utf8_valid (firstn l x))); [reflexivity|].
      destruct (firstn l x) as [|b r]; [reflexivity|].
      destruct (is_wsp b); [|reflexivity].
      destruct (negb (forallb is_vchar (b :: r))); [reflexivity|].
      apply IH; rewrite skipn_length; lia. }
    rewrite <- Un2. apply Hfuel.
    - rewrite !firstn_length, skipn_length. lia.
    - rewrite firstn_length, skipn_length. lia. }
  rewrite Un'. reflexivity.
Qed.

(* a complete header block: its first line lies within what was consumed *)
Lemma hdr_loop_complete_first_line f lim s acc off hs c :
  hdr_loop f lim s acc off = HComplete hs c ->
  exists lt, find_crlf s = Some lt /\ off + lt + 2 <= c.
Proof.
  destruct f as [|f]; [discriminate|]. rewrite hdr_loop_step.
  destruct (hdr_step lim s) as [|e|c1|h c1] eqn:E; try discriminate.
  - intros H. inversion H; subst.
    destruct (hdr_step_done_app lim s [] c1 E) as [_ [-> _]].
    unfold hdr_step in E. destruct s as [|a s']; [discriminate|].
    destruct (find_crlf (a :: s')) as [lt|] eqn:F.
    + exists lt. split; [reflexivity|].
      destruct (over_limit (lt + 2) lim); [discriminate|].
      destruct lt; [lia|]. cbv zeta in E.
      destruct (negb (utf8_valid _)); [discriminate|].
      destruct (find_byte _ _); [|discriminate].
      destruct (negb (forallb is_graphic _)); [discriminate|].
      destruct (negb (forallb is_vchar _)); [discriminate|].
      destruct (unfold_hdr _ _ _ _); discriminate.
    + destruct (over_limit _ lim); discriminate.
  - intros H.
    assert (Hc : off + c1 <= c).
    { clear E. revert H. generalize (skipn c1 s) (acc ++ [h]) (off + c1).
      induction f as [|f IH]; intros s0 acc0 off0 H; [discriminate|].
      rewrite hdr_loop_step in H. destruct (hdr_step lim s0) as [|e|c2|h2 c2]; try discriminate.
      - inversion H. lia.
      - apply IH in H. lia. }
    unfold hdr_step in E. destruct s as [|a s']; [discriminate|].
    destruct (find_crlf (a :: s')) as [lt|] eqn:F.
    + exists lt. split; [reflexivity|].
      destruct (over_limit (lt + 2) lim); [discriminate|].
      destruct lt; [discriminate|]. cbv zeta in E.
      destruct (negb (utf8_valid _)); [discriminate|].
      destruct (find_byte _ _); [|discriminate].
      destruct (negb (forallb is_graphic _)); [discriminate|].
      destruct (negb (forallb is_vchar _)); [discriminate|].
      destruct (unfold_hdr _ _ _ _) as [| |v c2]; try discriminate.
      inversion E; subst. lia.
    + destruct (over_limit _ lim); discriminate.
Qed.

Lemma hdr_loop_complete_firstn f lim s acc off hs c :
  hdr_loop f lim s acc off = HComplete hs c -> length s < f ->
  hdr_loop f lim (firstn (c - off) s) acc off = HComplete hs c.
Proof.
  revert s acc off. induction f as [|f IH]; intros s acc off H Hf; [discriminate|].
  rewrite hdr_loop_step in *.
  destruct (hdr_step lim s) as [|e|c1|h c1] eqn:E; try discriminate.
  - inversion H; subst hs c.
    destruct (hdr_step_done_app lim s [] c1 E) as [_ [-> Hl]].
    replace (off + 2 - off) with 2 by lia.
    assert (E2 : hdr_step lim (firstn 2 s) = SDone 2).
    { destruct (hdr_step_done_inv _ _ _ E) as [F O].
      apply hdr_step_done_intro; [|exact O].
      apply find_crlf_firstn; [exact F|lia]. }
    rewrite E2. reflexivity.
  - pose proof (hdr_step_field_pos _ _ _ _ E) as [Hpos Hcs].
    destruct (hdr_loop_complete_first_line _ _ _ _ _ _ _ H) as [lt' [Hl Hc]].
    assert (E2 : hdr_step lim (firstn (c - off) s) = SField h c1).
    { eapply hdr_step_field_firstn; [exact E|exact Hl|lia]. }
    rewrite E2. rewrite skipn_firstn_comm'.
    replace (c - off - c1) with (c - (off + c1)) by lia.
    apply IH; [exact H|]. rewrite skipn_length. lia.
Qed.

Theorem hdr_parse_complete_firstn lim hs s hs' c :
  hdr_parse lim hs s = HComplete hs' c -> hdr_parse lim hs (firstn c s) = HComplete hs' c.
Proof.
  unfold hdr_parse. intros H.
  pose proof (hdr_loop_complete_firstn _ _ _ _ _ _ _ H (Nat.lt_succ_diag_r _)) as H2.
  replace (c - 0) with c in H2 by lia.
  rewrite <- H2. apply hdr_loop_fuel; rewrite ?firstn_length; lia.
Qed.

(* a complete header block ends with CR LF *)
Lemma hdr_loop_complete_tail f lim s acc off hs c :
  hdr_loop f lim s acc off = HComplete hs c ->
  off + 2 <= c /\ c - off <= length s /\ skipn (c - off - 2) (firstn (c - off) s) = [CR; LF].
Proof.
  revert s acc off. induction f as [|f IH]; intros s acc off H; [discriminate|].
  rewrite hdr_loop_step in H.
  destruct (hdr_step lim s) as [|e|c1|h c1] eqn:E; try discriminate.
  - inversion H; subst hs c.
    destruct (hdr_step_done_app lim s [] c1 E) as [_ [-> Hl]].
    destruct (hdr_step_done_inv _ _ _ E) as [F _].
    pose proof (find_crlf_at _ _ F) as At. change (skipn 0 s) with s in At.
    split; [lia|]. split; [lia|].
    replace (off + 2 - off) with 2 by lia. change (2 - 2) with 0. rewrite At. reflexivity.
  - pose proof (hdr_step_field_pos _ _ _ _ E) as [Hpos Hcs].
    apply IH in H. destruct H as [H1 [H2 H3]]. rewrite skipn_length in H2.
    split; [lia|]. split; [lia|].
    replace (c - off) with (c1 + (c - (off + c1))) by lia.
    rewrite <- (firstn_skipn c1 s) at 1.
    rewrite firstn_app. rewrite firstn_length. replace (Nat.min c1 (length s)) with c1 by lia.
    replace (c1 + (c - (off + c1)) - c1) with (c - (off + c1)) by lia.
    rewrite firstn_firstn. replace (Nat.min (c1 + (c - (off + c1))) c1) with c1 by lia.
    rewrite skipn_app. rewrite firstn_length. replace (Nat.min c1 (length s)) with c1 by lia.
    replace (c1 + (c - (off + c1)) - 2 - c1) with (c - (off + c1) - 2) by lia.
    rewrite H3. rewrite skipn_all2; [reflexivity|]. rewrite firstn_length. lia.
Qed.

Lemma hdr_parse_complete_tail lim hs s hs' c :
  hdr_parse lim hs s = HComplete hs' c ->
  2 <= c /\ c <= length s /\ skipn (c - 2) (firstn c s) = [CR; LF].
Proof.
  unfold hdr_parse. intros H. apply hdr_loop_complete_tail in H.
  replace (c - 0) with c in H by lia. destruct H as [H1 [H2 H3]]. repeat split; try lia. exact H3.
Qed.
