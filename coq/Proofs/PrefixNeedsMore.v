(* PrefixNeedsMore.v -- a proper prefix of an acceptable message is answered "more input",
   never a rejection and never an early completion (C03, C04). *)
From Coq Require Import Lia.
From Http Require Import Model.Bytes Model.Request Model.Response
     Spec.RequestGrammar Spec.ResponseGrammar
     Proofs.ReqResume Proofs.C01Request Proofs.ReqGrammar Proofs.RespResume Proofs.RespGrammar.

Section Req.
  Variable uri : Type.
  Variable uri_parse : bytes -> option uri.

  Theorem request_prefix_needs_more cfg m v p t :
    IsRequest uri uri_parse cfg m v -> m = p ++ t -> t <> [] ->
    exists st c, req_parse uri uri_parse cfg req_init p = (st, Incomplete c).
  Proof.
    intros HI Hm Ht.
    destruct (req_parse_complete uri uri_parse cfg m v [] HI) as [st [E _]].
    rewrite app_nil_r in E.
    pose proof (req_parse_spec uri uri_parse cfg req_init p t (req_init_ok uri cfg)) as HS.
    rewrite <- Hm in HS. rewrite E in HS.
    destruct (req_parse uri uri_parse cfg req_init p) as [s1 [c|c|e]].
    - destruct HS as [Hc HS]. inversion HS; subst.
      rewrite app_length in Hc. destruct t; [congruence|]. simpl in Hc. lia.
    - eauto.
    - destruct HS as [st' [e' HS]]. discriminate.
  Qed.
End Req.

Theorem response_prefix_needs_more m v p t :
  IsResponse m v -> m = p ++ t -> t <> [] ->
  exists st c, resp_parse resp_init p = (st, Incomplete c).
Proof.
  intros HI Hm Ht.
  destruct (resp_parse_complete m v [] HI) as [st [c [E [_ [Hc Htr]]]]].
  rewrite app_nil_r in E.
  assert (Htr0 : s_trailer st = []) by (destruct Htr; assumption).
  rewrite Htr0 in Hc. simpl in Hc. rewrite Nat.add_0_r in Hc. subst c.
  pose proof (resp_parse_spec resp_init p t rwf_init) as HS. unfold rspec in HS.
  rewrite <- Hm in HS. rewrite E in HS.
  destruct (resp_parse resp_init p) as [s1 [c|c|e]].
  - destruct HS as [Hc [st1' [c' [HS Hsame]]]]. inversion HS; subst st1' c'.
    destruct Hsame as [_ [_ [_ [_ Hb]]]]. rewrite Htr0 in Hb. simpl in Hb.
    rewrite Hm, app_length in Hb. destruct t; [congruence|]. simpl in Hb. lia.
  - eauto.
  - destruct HS as [st' [e' HS]]. discriminate.
Qed.
