(* CodingGlue.v -- decode_body inverts every stack of gzip/deflate codings (C13) and never
   passes a damaged body off as content (C15), relative to stated facts about the three
   stream decoders (flate2), which are parameters. *)
From Coq Require Import Lia String.
From Http Require Import Model.Bytes Model.Num Model.Headers Model.Coding
     Proofs.HeaderAlgebra Proofs.Rewrite.

Inductive format := Gz | Zl | Raw.

Definition coding_token (f : format) : bytes :=
  match f with Gz => GZIP | Zl => DEFLATE | Raw => DEFLATE end.

Section Codecs.
  Variables gunzip inflate_raw inflate_zlib : bytes -> option bytes.
  (* encoders as relations: [enc f d e]: e is an encoding of d in format f, by any encoder,
     at any level, with any block structure and optional header fields *)
  Variable enc : format -> bytes -> bytes -> Prop.

  (* what is assumed of flate2 (sampled by the correspondence runs, not proved) *)
  Hypothesis gz_inverts : forall d e, enc Gz d e -> gunzip e = Some d.
  Hypothesis zl_inverts : forall d e, enc Zl d e -> inflate_zlib e = Some d /\ zlib_header e = true.
  Hypothesis raw_inverts : forall d e, enc Raw d e -> inflate_raw e = Some d /\ zlib_header e = false.

  Notation decode_body := (decode_body gunzip inflate_raw inflate_zlib).
  Notation undo := (undo gunzip inflate_raw inflate_zlib).

  (* a stack of codings applied in the listed order *)
  Inductive Enc : list format -> bytes -> bytes -> Prop :=
  | Enc_nil d : Enc [] d d
  | Enc_cons f fs d m e : enc f d m -> Enc fs m e -> Enc (f :: fs) d e.

  Lemma undo_one f d e : enc f d e -> undo [coding_token f] e = Some d.
  Proof.
    intros H. destruct f; simpl.
    - rewrite (gz_inverts _ _ H). reflexivity.
    - destruct (zl_inverts _ _ H) as [H1 H2]. unfold deflate_decode. rewrite H2, H1. reflexivity.
    - destruct (raw_inverts _ _ H) as [H1 H2]. unfold deflate_decode. rewrite H2, H1. reflexivity.
  Qed.

  Lemma undo_app l1 l2 b :
    undo (l1 ++ l2) b = match undo l1 b with Some b1 => undo l2 b1 | None => None end.
  Proof.
    revert b. induction l1 as [|c l1 IH]; intros b; [reflexivity|].
    simpl. destruct (if bytes_eqb c GZIP then gunzip b else deflate_decode inflate_raw inflate_zlib b);
      [apply IH|reflexivity].
  Qed.

  Lemma undo_stack fs d e : Enc fs d e -> undo (rev (map coding_token fs)) e = Some d.
  Proof.
    induction 1 as [d|f fs d m e Hf Hfs IH]; [reflexivity|].
    simpl. rewrite undo_app, IH. apply undo_one. exact Hf.
  Qed.

  Lemma tokens_recognised fs : forallb recognised (map coding_token fs) = true.
  Proof. induction fs as [|f fs IH]; [reflexivity|]. simpl. rewrite IH. destruct f; reflexivity. Qed.

  (* C13: whatever the spelling in the header (the crate's tokenisation lower-cases and trims),
     a body encoded by the listed stack is decoded to the original *)
  Theorem decode_inverts_stack hs fs d e :
    Enc fs d e ->
    header_tokens hs CONTENT_ENCODING = map coding_token fs ->
    exists hs', decode_body hs e = Some (hs', d).
  Proof.
    intros HE Ht.
    apply (decode_body_complete gunzip inflate_raw inflate_zlib hs e [] (map coding_token fs) d).
    - exact Ht.
    - apply tokens_recognised.
    - exact I.
    - apply undo_stack. exact HE.
  Qed.

  (* ---- C15 ---- *)
  Definition strict_prefix (p e : bytes) : Prop := exists t, t <> [] /\ e = p ++ t.

  Hypothesis gz_truncated : forall d e p, enc Gz d e -> strict_prefix p e -> gunzip p = None.
  Hypothesis zl_truncated : forall d e p, enc Zl d e -> strict_prefix p e ->
                                           deflate_decode inflate_raw inflate_zlib p = None.
  Hypothesis raw_truncated : forall d e p, enc Raw d e -> strict_prefix p e ->
                                            deflate_decode inflate_raw inflate_zlib p = None.

  Theorem truncated_body_fails hs f d e p :
    enc f d e -> strict_prefix p e ->
    header_tokens hs CONTENT_ENCODING = [coding_token f] ->
    decode_body hs p = None.
  Proof.
    intros He Hp Ht. unfold Coding.decode_body. rewrite Ht. simpl.
    destruct f; simpl.
    - rewrite (gz_truncated _ _ _ He Hp). reflexivity.
    - rewrite (zl_truncated _ _ _ He Hp). reflexivity.
    - rewrite (raw_truncated _ _ _ He Hp). reflexivity.
  Qed.

  (* whenever the outermost decoder reports an error -- truncation, bad checksum, bad length,
     bad signature -- decode_body fails, whatever the inner layers are *)
  Theorem outer_failure_fails hs toks last body :
    header_tokens hs CONTENT_ENCODING = toks ++ [last] ->
    (bytes_eqb last GZIP = true /\ gunzip body = None) \/
    (bytes_eqb last GZIP = false /\ bytes_eqb last DEFLATE = true /\
     deflate_decode inflate_raw inflate_zlib body = None) ->
    decode_body hs body = None.
  Proof.
    intros Ht H. unfold Coding.decode_body. rewrite Ht, rev_app_distr. simpl.
    destruct H as [[G N1]|[G [D N1]]]; rewrite G; [rewrite N1; reflexivity|].
    rewrite D, N1. reflexivity.
  Qed.

  (* and a success is always the complete output of every decoder it went through: the model
     has no other way to produce a body (a partial read cannot be returned as success) *)
  Theorem success_is_full_decoder_output hs body hs' b :
    decode_body hs body = Some (hs', b) ->
    exists undone, forallb recognised undone = true /\ undo (rev undone) body = Some b.
  Proof.
    intros H. destruct (decode_body_success _ _ _ _ _ _ _ H) as [k [u [_ [Hu [_ [_ [_ [_ Hun]]]]]]]].
    exists u. split; assumption.
  Qed.
End Codecs.
