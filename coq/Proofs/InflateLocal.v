(* InflateLocal.v -- the stream decoders of Model/Inflate.v read their input strictly left to
   right and byte by byte:

     local p :  whenever p succeeds it has fetched a prefix c of the pending bytes; on ANY
                other continuation of c it gives the same answer (and leaves that continuation),
                and on every strict prefix of c it stops with Eof.

   From this: a truncated stream is never accepted (C15), what follows a stream never
   influences its decoding, so altering the trailer fields alone cannot turn a failure of
   the checks into success (C15), and success pins the stored checksums to the returned
   content (C15).  Also: more fuel never changes a successful answer. *)
From Coq Require Import List NArith Arith Bool Lia.
From Http Require Import Model.Bytes Model.Inflate.
Import ListNotations.

Definition sprefix (c' c : bytes) : Prop := exists t, t <> [] /\ c = c' ++ t.

Lemma sprefix_nil_r c' : ~ sprefix c' [].
Proof. intros [t [Ht E]]. symmetry in E. apply app_eq_nil in E. destruct E. contradiction. Qed.

Lemma sprefix_app_inv c' c1 c2 :
  sprefix c' (c1 ++ c2) -> sprefix c' c1 \/ exists c2', c' = c1 ++ c2' /\ sprefix c2' c2.
Proof.
  intros [t [Ht E]].
  apply app_eq_app in E. destruct E as [l [[E1 E2] | [E1 E2]]].
  - destruct l as [|x l].
    + right. exists []. rewrite app_nil_r in E1. subst c1. rewrite app_nil_r. split; [reflexivity|].
      exists t. split; [assumption|]. simpl in E2. subst t. reflexivity.
    + left. exists (x :: l). split; [discriminate | assumption].
  - right. exists l. split; [assumption|]. exists t. split; assumption.
Qed.

Definition local {A} (p : istate -> res A) : Prop :=
  forall cur rest a cur' rest',
    p (cur, rest) = Ok a (cur', rest') ->
    exists c, rest = c ++ rest' /\
      (forall y, p (cur, c ++ y) = Ok a (cur', y)) /\
      (forall c', sprefix c' c -> p (cur, c') = Eof).

Definition bind {A B} (p : istate -> res A) (f : A -> istate -> res B) : istate -> res B :=
  fun s => match p s with Ok a s1 => f a s1 | Eof => Eof | Bad => Bad end.

Definition ret {A} (a : A) : istate -> res A := fun s => Ok a s.

Lemma local_ext {A} (p q : istate -> res A) : (forall s, p s = q s) -> local q -> local p.
Proof.
  intros E Hq cur rest a cur' rest' H. rewrite E in H.
  destruct (Hq _ _ _ _ _ H) as [c [H1 [H2 H3]]]. exists c. split; [assumption|].
  split; intros; rewrite E; auto.
Qed.

Lemma local_ret {A} (a : A) : local (ret a).
Proof.
  intros cur rest a' cur' rest' H. unfold ret in H. inversion H; subst. exists []. split; [reflexivity|].
  split; [reflexivity|]. intros c' Hc. exfalso. exact (sprefix_nil_r _ Hc).
Qed.

Lemma local_bad {A} : local (fun _ => @Bad A).
Proof. intros cur rest a cur' rest' H. discriminate. Qed.

Lemma local_eof {A} : local (fun _ => @Eof A).
Proof. intros cur rest a cur' rest' H. discriminate. Qed.

Lemma local_bind {A B} (p : istate -> res A) (f : A -> istate -> res B) :
  local p -> (forall a, local (f a)) -> local (bind p f).
Proof.
  intros Hp Hf cur rest b cur' rest' H. unfold bind in H.
  destruct (p (cur, rest)) as [a [cur1 rest1]| |] eqn:E; try discriminate.
  destruct (Hp _ _ _ _ _ E) as [c1 [R1 [X1 T1]]].
  destruct (Hf a _ _ _ _ _ H) as [c2 [R2 [X2 T2]]].
  exists (c1 ++ c2). split; [rewrite R1, R2; apply app_assoc|]. split.
  - intros y. unfold bind. rewrite <- app_assoc, X1. apply X2.
  - intros c' Hc. unfold bind. destruct (sprefix_app_inv _ _ _ Hc) as [Hc1 | [c2' [E' Hc2]]].
    + rewrite (T1 _ Hc1). reflexivity.
    + subst c'. rewrite X1. apply T2. exact Hc2.
Qed.

Lemma local_if {A} (b : bool) (p q : istate -> res A) :
  local p -> local q -> local (fun s => if b then p s else q s).
Proof. destruct b; auto. Qed.

(* ---- refinement: a successful answer is kept (used for "more fuel changes nothing") *)
Definition refines {A} (p q : istate -> res A) : Prop :=
  forall s a s', p s = Ok a s' -> q s = Ok a s'.

Lemma refines_refl {A} (p : istate -> res A) : refines p p.
Proof. intros s a s' H. exact H. Qed.

Lemma refines_bind {A B} (p p' : istate -> res A) (f f' : A -> istate -> res B) :
  refines p p' -> (forall a, refines (f a) (f' a)) -> refines (bind p f) (bind p' f').
Proof.
  intros Hp Hf s b s' H. unfold bind in *.
  destruct (p s) as [a s1| |] eqn:E; try discriminate.
  rewrite (Hp _ _ _ E). apply Hf. exact H.
Qed.

Lemma refines_ext {A} (p p' q q' : istate -> res A) :
  (forall s, p s = p' s) -> (forall s, q s = q' s) -> refines p' q' -> refines p q.
Proof. intros E1 E2 H s a s' H1. rewrite E2. apply H. rewrite <- E1. exact H1. Qed.

(* ---------------------------------------------------------------- primitives *)

Lemma byte_bits_cons b : exists x l, byte_bits b = x :: l.
Proof. unfold byte_bits. simpl. eauto. Qed.
Local Opaque byte_bits.

Lemma local_getbit : local getbit.
Proof.
  intros cur rest a cur' rest' H. destruct cur as [|b cur1].
  - destruct rest as [|byte rest1]; [discriminate|].
    simpl in H. destruct (byte_bits_cons byte) as [x [l E]]. rewrite E in H. inversion H; subst.
    exists [byte]. split; [reflexivity|]. split.
    + intros y. simpl. rewrite E. reflexivity.
    + intros c' [t [Ht Et]]. destruct c' as [|z c'].
      * reflexivity.
      * exfalso. inversion Et as [[E1 E2]]. symmetry in E2. apply app_eq_nil in E2. destruct E2. contradiction.
  - simpl in H. inversion H; subst. exists []. split; [reflexivity|]. split; [reflexivity|].
    intros c' Hc. exfalso. exact (sprefix_nil_r _ Hc).
Qed.

Lemma getbits_S n s :
  getbits (S n) s = bind getbit (fun b => bind (getbits n) (fun v => ret (bit_val b + 2 * v)%N)) s.
Proof. reflexivity. Qed.

Lemma local_getbits n : local (getbits n).
Proof.
  induction n as [|n IH].
  - exact (local_ret 0%N).
  - apply (local_ext _ _ (getbits_S n)). apply local_bind; [exact local_getbit|].
    intros b. apply local_bind; [exact IH|]. intros v. apply local_ret.
Qed.

Lemma local_align : local (fun s => Ok tt (align s)).
Proof.
  intros cur rest a cur' rest' H. unfold align in H. simpl in H. inversion H; subst.
  exists []. split; [reflexivity|]. split; [reflexivity|].
  intros c' Hc. exfalso. exact (sprefix_nil_r _ Hc).
Qed.

Lemma local_getbyte : local getbyte.
Proof.
  intros cur rest a cur' rest' H. destruct cur as [|b cur1].
  - destruct rest as [|byte rest1]; [discriminate|]. simpl in H. inversion H; subst.
    exists [a]. split; [reflexivity|]. split; [reflexivity|].
    intros c' [t [Ht Et]]. destruct c' as [|z c'].
    + reflexivity.
    + exfalso. inversion Et as [[E1 E2]]. symmetry in E2. apply app_eq_nil in E2. destruct E2. contradiction.
  - exact (local_getbits 8 _ _ _ _ _ H).
Qed.

Lemma take_bytes_S n out s :
  take_bytes (S n) out s = bind getbyte (fun b => take_bytes n (b :: out)) s.
Proof. reflexivity. Qed.

Lemma local_take_bytes n : forall out, local (take_bytes n out).
Proof.
  induction n as [|n IH]; intros out.
  - exact (local_ret out).
  - apply (local_ext _ _ (take_bytes_S n out)). apply local_bind; [exact local_getbyte|].
    intros b. apply IH.
Qed.

(* ---------------------------------------------------------------- Huffman symbols *)

Definition dec_step (c : N) (cs : list N) (syms : list nat) (code first index : N)
           (k : N -> N -> N -> istate -> res nat) : istate -> res nat :=
  bind getbit (fun b s1 =>
    let code := (2 * code + bit_val b)%N in
    if (N.leb first code && N.ltb code (first + c))%bool
    then match nth_error syms (N.to_nat (index + (code - first))) with
         | Some sym => Ok sym s1
         | None => Bad
         end
    else k code (2 * (first + c))%N (index + c)%N s1).

Lemma dec_sym_loop_cons c cs syms code first index s :
  dec_sym_loop (c :: cs) syms code first index s
  = dec_step c cs syms code first index (dec_sym_loop cs syms) s.
Proof. reflexivity. Qed.

Lemma local_dec_sym_loop counts syms : forall code first index,
    local (dec_sym_loop counts syms code first index).
Proof.
  induction counts as [|c cs IH]; intros code first index.
  - exact local_bad.
  - apply (local_ext _ _ (dec_sym_loop_cons c cs syms code first index)).
    unfold dec_step. apply local_bind; [exact local_getbit|]. intros b.
    apply local_if.
    + destruct (nth_error syms _); [apply local_ret | apply local_bad].
    + apply IH.
Qed.

Lemma local_dec_sym t : local (dec_sym t).
Proof. apply local_dec_sym_loop. Qed.

(* ---------------------------------------------------------------- the symbols of a block *)

Definition codes_body (k : bytes -> istate -> res bytes) (lit dist : htable) (out : bytes)
  : istate -> res bytes :=
  bind (dec_sym lit) (fun sym s1 =>
    if Nat.ltb sym 256 then k (N.of_nat sym :: out) s1
    else if Nat.eqb sym 256 then Ok out s1
    else if Nat.ltb 285 sym then Bad
    else bind (getbits (nth (sym - 257) LENGTH_EXTRA 0)) (fun e =>
         bind (dec_sym dist) (fun dsym s3 =>
           if Nat.ltb 29 dsym then Bad
           else bind (getbits (nth dsym DIST_EXTRA 0)) (fun e2 =>
                  k (copy_match_fast (N.to_nat (nth (sym - 257) LENGTH_BASE 0 + e)%N)
                                     (N.to_nat (nth dsym DIST_BASE 0 + e2)%N) out)) s3)) s1).

Lemma codes_S f lit dist out s :
  codes (S f) lit dist out s = codes_body (codes f lit dist) lit dist out s.
Proof. reflexivity. Qed.

Lemma local_codes_body k lit dist out :
  (forall o, local (k o)) -> local (codes_body k lit dist out).
Proof.
  intros Hk. unfold codes_body. apply local_bind; [apply local_dec_sym|]. intros sym.
  destruct (Nat.ltb sym 256); [apply Hk|].
  destruct (Nat.eqb sym 256); [apply (local_ret out)|].
  destruct (Nat.ltb 285 sym); [apply local_bad|].
  apply local_bind; [apply local_getbits|]. intros e.
  apply local_bind; [apply local_dec_sym|]. intros dsym.
  destruct (Nat.ltb 29 dsym); [apply local_bad|].
  apply local_bind; [apply local_getbits|]. intros e2. apply Hk.
Qed.

Lemma refines_codes_body k k' lit dist out :
  (forall o, refines (k o) (k' o)) -> refines (codes_body k lit dist out) (codes_body k' lit dist out).
Proof.
  intros Hk. unfold codes_body. apply refines_bind; [apply refines_refl|]. intros sym.
  destruct (Nat.ltb sym 256); [apply Hk|].
  destruct (Nat.eqb sym 256); [apply refines_refl|].
  destruct (Nat.ltb 285 sym); [apply refines_refl|].
  apply refines_bind; [apply refines_refl|]. intros e.
  apply refines_bind; [apply refines_refl|]. intros dsym.
  destruct (Nat.ltb 29 dsym); [apply refines_refl|].
  apply refines_bind; [apply refines_refl|]. intros e2. apply Hk.
Qed.

Lemma local_codes f lit dist : forall out, local (codes f lit dist out).
Proof.
  induction f as [|f IH]; intros out.
  - exact local_eof.
  - apply (local_ext _ _ (codes_S f lit dist out)). apply local_codes_body. exact IH.
Qed.

Lemma codes_mono f lit dist : forall out, refines (codes f lit dist out) (codes (S f) lit dist out).
Proof.
  induction f as [|f IH]; intros out.
  - intros s a s' H. discriminate.
  - apply (refines_ext _ _ _ _ (codes_S f lit dist out) (codes_S (S f) lit dist out)).
    apply refines_codes_body. exact IH.
Qed.

Lemma codes_mono_le f f' lit dist out : f <= f' -> refines (codes f lit dist out) (codes f' lit dist out).
Proof.
  intros H. induction H as [|f' H IH]; [apply refines_refl|].
  intros s a s' H1. apply codes_mono. apply IH. exact H1.
Qed.

(* ---------------------------------------------------------------- dynamic header *)

Lemma read_hufflens_S o order n acc s :
  read_hufflens (o :: order) (S n) acc s
  = bind (getbits 3) (fun v => read_hufflens order n (set_nth o v acc)) s.
Proof. reflexivity. Qed.

Lemma local_read_hufflens : forall n order acc, local (read_hufflens order n acc).
Proof.
  induction n as [|n IH]; intros order acc.
  - destruct order; exact (local_ret acc).
  - destruct order as [|o order]; [exact local_bad|].
    apply (local_ext _ _ (read_hufflens_S o order n acc)).
    apply local_bind; [apply local_getbits|]. intros v. apply IH.
Qed.

Definition read_lens_body (k : list N -> istate -> res (list N)) (hl : htable) (total : nat)
           (acc : list N) : istate -> res (list N) :=
  if Nat.ltb (length acc) total then
    bind (dec_sym hl) (fun sym s1 =>
      if Nat.ltb sym 16 then k (N.of_nat sym :: acc) s1
      else if Nat.eqb sym 16 then
        match acc with
        | [] => Bad
        | prev :: _ => bind (getbits 2) (fun e => k (repeat prev (3 + N.to_nat e) ++ acc)) s1
        end
      else if Nat.eqb sym 17 then bind (getbits 3) (fun e => k (repeat 0%N (3 + N.to_nat e) ++ acc)) s1
      else if Nat.eqb sym 18 then bind (getbits 7) (fun e => k (repeat 0%N (11 + N.to_nat e) ++ acc)) s1
      else Bad)
  else if Nat.eqb (length acc) total then ret (rev acc)
  else fun _ => Bad.

Lemma read_lens_S f hl total acc s :
  read_lens (S f) hl total acc s = read_lens_body (read_lens f hl total) hl total acc s.
Proof.
  unfold read_lens_body. simpl. destruct (Nat.ltb (length acc) total); [reflexivity|].
  destruct (Nat.eqb (length acc) total); reflexivity.
Qed.

Lemma local_read_lens f hl total : forall acc, local (read_lens f hl total acc).
Proof.
  induction f as [|f IH]; intros acc.
  - exact local_eof.
  - apply (local_ext _ _ (read_lens_S f hl total acc)). unfold read_lens_body.
    destruct (Nat.ltb (length acc) total).
    + apply local_bind; [apply local_dec_sym|]. intros sym.
      destruct (Nat.ltb sym 16); [apply IH|].
      destruct (Nat.eqb sym 16).
      * destruct acc as [|prev acc']; [apply local_bad|].
        apply local_bind; [apply local_getbits|]. intros e. apply IH.
      * destruct (Nat.eqb sym 17); [apply local_bind; [apply local_getbits|]; intros e; apply IH|].
        destruct (Nat.eqb sym 18); [apply local_bind; [apply local_getbits|]; intros e; apply IH|].
        apply local_bad.
    + destruct (Nat.eqb (length acc) total); [apply local_ret | apply local_bad].
Qed.

Definition dyn_body : istate -> res (htable * htable) :=
  bind (getbits 5) (fun hlit => bind (getbits 5) (fun hdist => bind (getbits 4) (fun hclen =>
    let nlit := (N.to_nat hlit + 257) in
    let ndist := (N.to_nat hdist + 1) in
    if (Nat.ltb 286 nlit || Nat.ltb 30 ndist)%bool then fun _ => Bad
    else bind (read_hufflens HUFFLEN_ORDER (N.to_nat hclen + 4) (repeat 0%N 19)) (fun hlens =>
      let hl := mk_table hlens in
      if negb (table_ok true hl) then fun _ => Bad
      else bind (read_lens (nlit + ndist + 1) hl (nlit + ndist) []) (fun lens =>
        let dist := mk_table (skipn nlit lens) in
        let lit := mk_table (firstn nlit lens) in
        if negb (table_ok false dist) then fun _ => Bad
        else if negb (table_ok false lit) then fun _ => Bad
        else ret (lit, dist)))))).

Lemma dynamic_tables_eq s : dynamic_tables s = dyn_body s.
Proof.
  unfold dynamic_tables, dyn_body, bind, ret.
  destruct (getbits 5 s) as [hlit s1| |]; [|reflexivity|reflexivity].
  destruct (getbits 5 s1) as [hdist s2| |]; [|reflexivity|reflexivity].
  destruct (getbits 4 s2) as [hclen s3| |]; [|reflexivity|reflexivity].
  cbv zeta.
  destruct (Nat.ltb 286 (N.to_nat hlit + 257) || Nat.ltb 30 (N.to_nat hdist + 1))%bool; [reflexivity|].
  destruct (read_hufflens _ _ _ s3) as [hlens s4| |]; [|reflexivity|reflexivity].
  destruct (negb (table_ok true (mk_table hlens))); [reflexivity|].
  destruct (read_lens _ _ _ _ s4) as [lens s5| |]; [|reflexivity|reflexivity].
  destruct (negb (table_ok false (mk_table (skipn _ lens)))); [reflexivity|].
  destruct (negb (table_ok false (mk_table (firstn _ lens)))); reflexivity.
Qed.

Lemma local_dynamic_tables : local dynamic_tables.
Proof.
  apply (local_ext _ _ dynamic_tables_eq). unfold dyn_body.
  apply local_bind; [apply local_getbits|]. intros hlit.
  apply local_bind; [apply local_getbits|]. intros hdist.
  apply local_bind; [apply local_getbits|]. intros hclen. cbv zeta.
  destruct (_ || _)%bool; [apply local_bad|].
  apply local_bind; [apply local_read_hufflens|]. intros hlens.
  destruct (negb _); [apply local_bad|].
  apply local_bind; [apply local_read_lens|]. intros lens.
  destruct (negb _); [apply local_bad|].
  destruct (negb _); [apply local_bad|]. apply local_ret.
Qed.

(* ---------------------------------------------------------------- blocks *)

Definition stored_body (out : bytes) : istate -> res bytes :=
  bind (fun s => Ok tt (align s)) (fun _ =>
  bind getbyte (fun l0 => bind getbyte (fun l1 => bind getbyte (fun n0 => bind getbyte (fun n1 =>
    if N.eqb ((l0 + 256 * l1) + (n0 + 256 * n1)) 65535
    then take_bytes (N.to_nat (l0 + 256 * l1)) out else fun _ => Bad))))).

Lemma stored_block_eq out s : stored_block out s = stored_body out s.
Proof.
  unfold stored_block, stored_body, bind.
  destruct (getbyte (align s)) as [l0 s1| |]; [|reflexivity|reflexivity].
  destruct (getbyte s1) as [l1 s2| |]; [|reflexivity|reflexivity].
  destruct (getbyte s2) as [n0 s3| |]; [|reflexivity|reflexivity].
  destruct (getbyte s3) as [n1 s4| |]; [|reflexivity|reflexivity].
  cbv zeta. destruct (N.eqb _ 65535); reflexivity.
Qed.

Lemma local_stored_block out : local (stored_block out).
Proof.
  apply (local_ext _ _ (stored_block_eq out)). unfold stored_body.
  apply local_bind; [apply local_align|]. intros _.
  apply local_bind; [apply local_getbyte|]. intros l0.
  apply local_bind; [apply local_getbyte|]. intros l1.
  apply local_bind; [apply local_getbyte|]. intros n0.
  apply local_bind; [apply local_getbyte|]. intros n1.
  destruct (N.eqb _ 65535); [apply local_take_bytes | apply local_bad].
Qed.

(* the content of one block, by block type *)
Definition block_content (fuel : nat) (out : bytes) (hdr : N) : istate -> res bytes :=
  match N.div2 hdr with
  | 0%N => stored_block out
  | 1%N => codes fuel fixed_lit fixed_dist out
  | 2%N => bind dynamic_tables (fun ld => codes fuel (fst ld) (snd ld) out)
  | _ => fun _ => Bad
  end.

Definition blocks_body (fuel : nat) (k : bytes -> istate -> res bytes) (out : bytes)
  : istate -> res bytes :=
  bind (getbits 3) (fun hdr =>
    bind (block_content fuel out hdr) (fun out' s' =>
      if N.odd hdr then Ok out' (align s') else k out' s')).

Lemma blocks_S f out s : blocks (S f) out s = blocks_body (S f) (blocks f) out s.
Proof.
  unfold blocks_body, block_content, bind. cbn [blocks].
  destruct (getbits 3 s) as [hdr s1| |]; [|reflexivity|reflexivity].
  destruct (N.div2 hdr) as [|[p|p|]]; try reflexivity.
  destruct p; try reflexivity.
  destruct (dynamic_tables s1) as [[lit dist] s2| |]; reflexivity.
Qed.

Lemma local_block_content fuel out hdr : local (block_content fuel out hdr).
Proof.
  unfold block_content. destruct (N.div2 hdr) as [|[p|p|]].
  - apply local_stored_block.
  - apply local_bad.
  - destruct p; try apply local_bad.
    apply local_bind; [apply local_dynamic_tables|]. intros ld. apply local_codes.
  - apply local_codes.
Qed.

Lemma local_finish (out' : bytes) : local (fun s' => Ok out' (align s')).
Proof.
  intros cur rest a cur' rest' H. unfold align in H. simpl in H. inversion H; subst.
  exists []. split; [reflexivity|]. split; [reflexivity|].
  intros c' Hc. exfalso. exact (sprefix_nil_r _ Hc).
Qed.

Lemma local_blocks f : forall out, local (blocks f out).
Proof.
  induction f as [|f IH]; intros out.
  - exact local_eof.
  - apply (local_ext _ _ (blocks_S f out)). unfold blocks_body.
    apply local_bind; [apply local_getbits|]. intros hdr.
    apply local_bind; [apply local_block_content|]. intros out'.
    destruct (N.odd hdr); [apply local_finish | apply IH].
Qed.

Lemma block_content_mono f f' out hdr :
  f <= f' -> refines (block_content f out hdr) (block_content f' out hdr).
Proof.
  intros H. unfold block_content. destruct (N.div2 hdr) as [|[p|p|]]; try apply refines_refl.
  - destruct p; try apply refines_refl.
    apply refines_bind; [apply refines_refl|]. intros ld. apply codes_mono_le. exact H.
  - apply codes_mono_le. exact H.
Qed.

Lemma blocks_mono f : forall out, refines (blocks f out) (blocks (S f) out).
Proof.
  induction f as [|f IH]; intros out.
  - intros s a s' H. discriminate.
  - apply (refines_ext _ _ _ _ (blocks_S f out) (blocks_S (S f) out)). unfold blocks_body.
    apply refines_bind; [apply refines_refl|]. intros hdr.
    apply refines_bind; [apply block_content_mono; lia|]. intros out'.
    destruct (N.odd hdr); [apply refines_refl | apply IH].
Qed.

Lemma blocks_mono_le f f' out : f <= f' -> refines (blocks f out) (blocks f' out).
Proof.
  intros H. induction H as [|f' H IH]; [apply refines_refl|].
  intros s a s' H1. apply blocks_mono. apply IH. exact H1.
Qed.

(* a successful run of blocks ends byte-aligned *)
Lemma blocks_aligned f : forall out s r cur rest, blocks f out s = Ok r (cur, rest) -> cur = [].
Proof.
  induction f as [|f IH]; intros out s r cur rest H; [discriminate|].
  rewrite blocks_S in H. unfold blocks_body, bind in H.
  destruct (getbits 3 s) as [hdr s1| |]; try discriminate.
  destruct (block_content (S f) out hdr s1) as [out' s'| |]; try discriminate.
  destruct (N.odd hdr).
  - unfold align in H. inversion H. reflexivity.
  - exact (IH _ _ _ _ _ H).
Qed.
