(* ReqRejects.v -- Request::parse on a fresh parser rejects exactly the inputs that have a
   first offending element (Spec/Rejections.v), with that element's category (C03). *)
From Coq Require Import Lia ZifyN ZifyNat.
From Http Require Import Model.Bytes Model.Utf8 Model.Num Model.Headers Model.Request
     Spec.ChunkedGrammar Spec.HeaderGrammar Spec.RequestGrammar Spec.Rejections
     Proofs.BytesLemmas Proofs.HeadersResume Proofs.ReqResume Proofs.HeaderGrammarProofs
     Proofs.HeaderRejects Proofs.ChunkGrammar Proofs.HeaderAlgebra Proofs.ReqGrammar.

(* ---- the header-block parser's three answers ---- *)
Lemma side_nil lim s : side lim s [].
Proof. right. unfold starts_lf. apply Bool.andb_false_r. Qed.

Lemma hdr_complete_iff lim r hs c :
  hdr_parse lim [] r = HComplete hs c <->
  exists fs, block_complete lim r fs /\ hs = map field_header fs /\ c = length (header_block fs).
Proof.
  split.
  - intros H. destruct (hdr_parse_sound _ _ _ _ _ H) as [fs [H1 [H2 H3]]].
    pose proof (hdr_parse_complete_tail _ _ _ _ _ H) as [_ [Hc _]].
    exists fs. split; [split; [exact H1|]|split; [exact H3|]].
    + exists (skipn c r). rewrite <- H2. symmetry. apply firstn_skipn.
    + rewrite <- H2. rewrite firstn_length. symmetry. apply Nat.min_l. exact Hc.
  - intros [fs [[Hok [rest ->]] [-> ->]]]. apply (hdr_parse_complete lim [] fs rest Hok).
Qed.

Lemma hdr_incomplete_pending lim r hs k :
  hdr_parse lim [] r = HIncomplete hs k -> block_pending lim r /\ k <= length r.
Proof.
  intros H. split; [split|].
  - intros e Hd. apply (hdr_parse_reject_iff lim [] r e) in Hd. congruence.
  - intros fs [Hok [rest ->]]. rewrite (hdr_parse_complete lim [] fs rest Hok) in H. discriminate.
  - pose proof (hdr_parse_app lim [] r [] (side_nil lim r)) as A. rewrite H in A. tauto.
Qed.

Lemma pending_incomplete lim r :
  block_pending lim r -> exists hs k, hdr_parse lim [] r = HIncomplete hs k.
Proof.
  intros [Hnd Hnc]. destruct (hdr_parse lim [] r) as [hs c|hs k|e] eqn:H.
  - exfalso. apply hdr_complete_iff in H. destruct H as [fs [Hb _]]. exact (Hnc fs Hb).
  - eauto.
  - exfalso. apply hdr_parse_reject_iff in H. exact (Hnd e H).
Qed.

(* ---- the size tests, in terms of within_max ---- *)
Lemma count_none_iff cfg t c : count_bytes cfg t c = None <-> ~ within_max cfg (t + c).
Proof.
  unfold count_bytes, within_max. destruct (mm cfg) as [m|].
  - rewrite sat_min. destruct (N.ltb m (N.min (t + c) USIZE_MAX)) eqn:E.
    + apply N.ltb_lt in E. split; [intros _; lia|reflexivity].
    + apply N.ltb_ge in E. split; [discriminate|intros H; exfalso; apply H; exact E].
  - split; [discriminate|intros H; exfalso; apply H; exact I].
Qed.

Lemma presented_ok_iff cfg t k : presented_ok cfg t k = true <-> within_max cfg (t + N.of_nat k).
Proof.
  unfold presented_ok, within_max. destruct (mm cfg) as [m|]; [|tauto].
  rewrite sat_min. rewrite Bool.negb_true_iff, N.ltb_ge. tauto.
Qed.

Lemma within_cases cfg x : within_max cfg x \/ ~ within_max cfg x.
Proof. unfold within_max. destruct (mm cfg) as [m|]; [lia|tauto]. Qed.

(* nested saturating counts are the count of the sum *)
Lemma within_sat2 cfg a b : within_max cfg (sat_add 0 a + b) <-> within_max cfg (a + b).
Proof. unfold within_max, sat_add. destruct (mm cfg) as [mx|]; [|tauto]. unfold USIZE_MAX. lia. Qed.

Lemma within_sat3 cfg a b c :
  within_max cfg (sat_add (sat_add 0 a) b + c) <-> within_max cfg (a + b + c).
Proof. unfold within_max, sat_add. destruct (mm cfg) as [mx|]; [|tauto]. unfold USIZE_MAX. lia. Qed.

Definition sat2_elim cfg a b := proj1 (within_sat2 cfg a b).
Definition sat2_intro cfg a b := proj2 (within_sat2 cfg a b).
Definition sat3_elim cfg a b c := proj1 (within_sat3 cfg a b c).
Definition sat3_intro cfg a b c := proj2 (within_sat3 cfg a b c).

Section WithUri.
  Variable uri : Type.
  Variable uri_parse : bytes -> option uri.
  Notation P := (req_parse uri uri_parse).
  Notation RSD := (rshape_defect uri uri_parse).
  Notation RD := (request_defect uri uri_parse).

  Lemma bytes_eqb_false a b : bytes_eqb a b = false <-> a <> b.
  Proof.
    split.
    - intros H E. subst. rewrite bytes_eqb_refl in H. discriminate.
    - intros H. destruct (bytes_eqb a b) eqn:E; [|reflexivity]. apply bytes_eqb_eq in E. contradiction.
  Qed.

  Lemma firstn_nonempty (s : bytes) k : 0 < k -> k <= length s -> firstn k s <> [].
  Proof. intros H1 H2 E. apply (f_equal (@length N)) in E. rewrite firstn_length in E. simpl in E. lia. Qed.

  (* ---- the request-line splitter names the shape defect ---- *)
  Lemma parse_request_line_reject line e :
    parse_request_line uri uri_parse line = inr e <-> RSD line e.
  Proof.
    split.
    - unfold parse_request_line.
      destruct (find_byte SP line) as [md|] eqn:F1.
      2:{ intros H; inversion H; subst. constructor. exact F1. }
      pose proof (find_byte_split _ _ _ F1) as S1.
      pose proof (find_byte_firstn_none _ _ _ F1) as N1.
      pose proof (find_byte_bound _ _ _ F1) as B1.
      destruct md as [|md0].
      { intros H; inversion H; subst. rewrite S1. cbn [firstn app]. constructor. }
      remember (S md0) as md eqn:Emd.
      assert (Hm : firstn md line <> []) by (apply firstn_nonempty; lia).
      destruct (find_byte SP (skipn (S md) line)) as [td|] eqn:F2.
      2:{ intros H; inversion H; subst e. rewrite S1. apply RS_no_target_delimiter; assumption. }
      pose proof (find_byte_split _ _ _ F2) as S2.
      pose proof (find_byte_firstn_none _ _ _ F2) as N2.
      pose proof (find_byte_bound _ _ _ F2) as B2.
      destruct td as [|td0].
      { intros H; inversion H; subst e. rewrite S1. rewrite S2. cbn [firstn app].
        apply RS_no_target; assumption. }
      remember (S td0) as td eqn:Etd.
      assert (Ht : firstn td (skipn (S md) line) <> []) by (apply firstn_nonempty; lia).
      destruct (uri_parse (firstn td (skipn (S md) line))) as [u|] eqn:U.
      2:{ intros H; inversion H; subst e. rewrite S1. rewrite S2.
          apply RS_uri; assumption. }
      destruct (bytes_eqb (skipn (S td) (skipn (S md) line)) HTTP11) eqn:B; [discriminate|].
      intros H; inversion H; subst e. rewrite S1. rewrite S2.
      apply (RS_protocol uri uri_parse _ _ _ u); try assumption. apply bytes_eqb_false. exact B.
    - intros H. unfold parse_request_line.
      destruct H as [l F|r|m r Hm Fm Fr|m r Hm Fm|m t p Hm Fm Ht Ft U|m t p u Hm Fm Ht Ft U Hp].
      + rewrite F. reflexivity.
      + cbn [find_byte]. rewrite N.eqb_refl. reflexivity.
      + rewrite (find_byte_app_none SP m r Fm).
        destruct (length m) as [|k] eqn:Lm; [destruct m; [congruence|discriminate]|].
        rewrite <- Lm. rewrite skipn_app_cons. rewrite Fr. reflexivity.
      + rewrite (find_byte_app_none SP m _ Fm).
        destruct (length m) as [|k] eqn:Lm; [destruct m; [congruence|discriminate]|].
        rewrite <- Lm. rewrite skipn_app_cons. cbn [find_byte]. rewrite N.eqb_refl. reflexivity.
      + rewrite (find_byte_app_none SP m _ Fm).
        destruct (length m) as [|k] eqn:Lm; [destruct m; [congruence|discriminate]|].
        rewrite <- Lm. rewrite skipn_app_cons. rewrite (find_byte_app_none SP t p Ft).
        destruct (length t) as [|k2] eqn:Lt; [destruct t; [congruence|discriminate]|].
        rewrite <- Lt. rewrite firstn_app_exact. rewrite U. reflexivity.
      + rewrite (find_byte_app_none SP m _ Fm).
        destruct (length m) as [|k] eqn:Lm; [destruct m; [congruence|discriminate]|].
        rewrite <- Lm. rewrite skipn_app_cons. rewrite (find_byte_app_none SP t p Ft).
        destruct (length t) as [|k2] eqn:Lt; [destruct t; [congruence|discriminate]|].
        rewrite <- Lt. rewrite firstn_app_exact. rewrite U. rewrite skipn_app_cons.
        apply bytes_eqb_false in Hp. rewrite Hp. reflexivity.
  Qed.

  (* ---- Request::parse on a buffer whose first line is terminated, in normal form ---- *)
  Definition hstate (meth : bytes) (u : uri) (t : N) : req_state uri :=
    {| r_phase := PHeaders; r_method := meth; r_target := Some u;
       r_headers := []; r_body := []; r_total := t |}.

  (* F9 applied to the answer of the phase functions *)
  Definition f9 (cfg : rcfg) (len : nat) (r : req_state uri * outcome) : req_state uri * outcome :=
    match r with
    | (st', Incomplete c) =>
        if presented_ok cfg (r_total st') (len - c) then (st', Incomplete c)
        else (req_init, Reject EMessageTooLong)
    | r => r
    end.

  Lemma req_parse_line_form cfg l rest :
    is_line l ->
    P cfg req_init (l ++ CRLF ++ rest) =
    if over_limit (length l) (rl cfg) then (req_init, Reject ERequestLineTooLong) else
    if negb (utf8_valid l) then (req_init, Reject ERequestLineNotValidText) else
    match count_bytes cfg 0 (N.of_nat (length l + 2)) with
    | None => (req_init, Reject EMessageTooLong)
    | Some t =>
      match parse_request_line uri uri_parse l with
      | inr er => (req_init, Reject er)
      | inl (meth, u) =>
          f9 cfg (length (l ++ CRLF ++ rest))
             (shift uri (length l + 2) (req_headers uri cfg (hstate meth u t) rest))
      end
    end.
  Proof.
    intros Hl. rewrite req_parse_eq. unfold req_dispatch. cbn [r_phase req_init]. unfold req_line.
    rewrite (is_line_find l rest Hl). rewrite firstn_line, skipn_line.
    destruct (over_limit (length l) (rl cfg)); [reflexivity|].
    destruct (negb (utf8_valid l)); [reflexivity|].
    cbn [r_total req_init].
    destruct (count_bytes cfg 0 (N.of_nat (length l + 2))) as [t|]; [|reflexivity].
    destruct (parse_request_line uri uri_parse l) as [[meth u]|er]; [|reflexivity].
    cbn [r_headers r_body req_init]. unfold hstate, f9.
    destruct (shift uri _ _) as [sx [k|k|ex]]; reflexivity.
  Qed.

  (* the header phase on a fresh header state, by the three answers of the block parser *)
  Lemma req_headers_form cfg meth u t rest :
    req_headers uri cfg (hstate meth u t) rest =
    match hdr_parse (hl cfg) [] (strip_cr rest) with
    | HError e => (hstate meth u t, Reject (EHeaders e))
    | HIncomplete hs c =>
      match count_bytes cfg t (N.of_nat c) with
      | None => (hstate meth u t, Reject EMessageTooLong)
      | Some t2 =>
        ({| r_phase := PHeaders; r_method := meth; r_target := Some u;
            r_headers := hs; r_body := []; r_total := t2 |}, Incomplete c)
      end
    | HComplete hs c =>
      match count_bytes cfg t (N.of_nat c) with
      | None => (hstate meth u t, Reject EMessageTooLong)
      | Some t2 =>
        match header_value hs CONTENT_LENGTH with
        | None =>
          ({| r_phase := PHeaders; r_method := meth; r_target := Some u;
              r_headers := hs; r_body := []; r_total := t2 |}, Complete c)
        | Some v =>
          match parse_dec v with
          | None => (hstate meth u t, Reject EInvalidContentLength)
          | Some n =>
            match count_bytes cfg t2 n with
            | None => (hstate meth u t, Reject EMessageTooLong)
            | Some t3 =>
              shift uri c
                (req_body uri
                   {| r_phase := PBody n; r_method := meth; r_target := Some u;
                      r_headers := hs; r_body := []; r_total := t3 |}
                   n (skipn c rest))
            end
          end
        end
      end
    end.
  Proof. reflexivity. Qed.

  (* a declared body that is still short: everything presented was consumed, and the count
     already includes the declaration, so F9 passes *)
  Lemma body_phase_never_rejects cfg meth u hs n t2 t3 c rest len k0 :
    count_bytes cfg t2 n = Some t3 -> c <= length rest -> len = k0 + length rest ->
    forall st e,
    f9 cfg len (shift uri k0 (shift uri c
       (req_body uri {| r_phase := PBody n; r_method := meth; r_target := Some u;
                        r_headers := hs; r_body := []; r_total := t3 |} n (skipn c rest))))
    <> (st, Reject e).
  Proof.
    intros C3 Hc Hlen st e. destruct (count_bytes_some cfg _ _ _ C3) as [_ Ok].
    unfold req_body. cbv zeta. cbn [r_body length].
    destruct (N.leb _ _); cbn [shift f9]; [discriminate|].
    cbn [r_total]. rewrite skipn_length.
    replace (len - (k0 + (c + (length rest - c)))) with 0 by lia.
    rewrite Ok. discriminate.
  Qed.

  Lemma line_good_facts cfg l meth u :
    line_good uri uri_parse cfg l meth u ->
    is_line l /\ over_limit (length l) (rl cfg) = false /\ utf8_valid l = true /\
    count_bytes cfg 0 (N.of_nat (length l + 2)) = Some (sat_add 0 (N.of_nat (length l + 2))) /\
    parse_request_line uri uri_parse l = inl (meth, u).
  Proof.
    intros [tstr [-> [Hok W]]].
    pose proof (parse_request_line_complete uri uri_parse _ _ _ _ Hok) as PL.
    destruct Hok as [_ [_ [_ [_ [_ [Hil [Hutf Hlim]]]]]]].
    repeat split; try assumption.
    apply count_ok_of_within; [rewrite N.add_0_l; exact W|unfold USIZE_MAX; lia].
  Qed.

  Lemma line_good_intro cfg l meth u :
    is_line l -> over_limit (length l) (rl cfg) = false -> utf8_valid l = true ->
    within_max cfg (N.of_nat (length l + 2)) ->
    parse_request_line uri uri_parse l = inl (meth, u) ->
    line_good uri uri_parse cfg l meth u.
  Proof.
    intros Hl O U W PL.
    destruct (parse_request_line_sound uri uri_parse _ _ _ PL) as [tstr [-> [H1 [H2 [H3 [H4 H5]]]]]].
    exists tstr. split; [reflexivity|]. split; [|exact W].
    unfold request_line_ok. repeat split; assumption.
  Qed.

  (* ------------------------------------------------------------ rejection => defect *)
  Theorem request_reject_sound cfg s st e :
    P cfg req_init s = (st, Reject e) -> RD cfg s e.
  Proof.
    destruct (find_crlf s) as [e0|] eqn:F.
    2:{ rewrite req_parse_eq. unfold req_dispatch. cbn [r_phase req_init]. unfold req_line. rewrite F.
        destruct (over_limit _ _) eqn:O.
        - intros H; inversion H; subst. apply RD_unterminated_long; assumption.
        - cbn [r_total req_init]. rewrite Nat.sub_0_r.
          destruct (presented_ok cfg 0 (length s)) eqn:PO; [discriminate|].
          intros H; inversion H; subst. apply RD_unterminated_max; try assumption.
          intros W. apply (presented_ok_iff cfg 0 (length s)) in W. congruence. }
    pose proof (line_split _ _ F) as Hs. pose proof (is_line_firstn _ _ F) as Hl.
    revert Hs Hl. generalize (firstn e0 s) as l. generalize (skipn (e0 + 2) s) as rest.
    intros rest l -> Hl. clear F e0.
    rewrite (req_parse_line_form cfg l rest Hl).
    destruct (over_limit (length l) (rl cfg)) eqn:O.
    { intros H; inversion H; subst. apply RD_line; [exact Hl|]. apply RLD_long. exact O. }
    destruct (utf8_valid l) eqn:U; cbn [negb].
    2:{ intros H; inversion H; subst. apply RD_line; [exact Hl|]. apply RLD_text; assumption. }
    destruct (count_bytes cfg 0 (N.of_nat (length l + 2))) as [t1|] eqn:C1.
    2:{ intros H; inversion H; subst. apply RD_line; [exact Hl|]. apply RLD_max; try assumption.
        apply count_none_iff in C1. rewrite N.add_0_l in C1. exact C1. }
    destruct (count_within _ _ _ _ C1) as [-> W1]. rewrite N.add_0_l in W1.
    destruct (parse_request_line uri uri_parse l) as [[meth u]|er] eqn:PL.
    2:{ intros H; inversion H; subst. apply RD_line; [exact Hl|]. apply RLD_shape; try assumption.
        apply parse_request_line_reject. exact PL. }
    pose proof (line_good_intro cfg l meth u Hl O U W1 PL) as LG.
    rewrite req_headers_form.
    set (t1 := sat_add 0 (N.of_nat (length l + 2))) in *.
    assert (Hlen : length (l ++ CRLF ++ rest) = length l + 2 + length rest)
      by (rewrite !app_length; simpl; lia).
    pose proof (strip_cr_length rest) as Hsl.
    destruct (hdr_parse (hl cfg) [] (strip_cr rest)) as [hs c|hs k|eh] eqn:HP.
    - apply hdr_complete_iff in HP. destruct HP as [fs [BC [-> ->]]].
      assert (Hcl : length (header_block fs) <= length rest).
      { destruct BC as [_ [x Hx]]. apply (f_equal (@length N)) in Hx. rewrite app_length in Hx. lia. }
      destruct (count_bytes cfg t1 (N.of_nat (length (header_block fs)))) as [t2|] eqn:C2.
      2:{ cbn [shift f9]. intros H; inversion H; subst. eapply RD_block_max; [exact LG|exact BC|].
          apply count_none_iff in C2. intros W. apply C2. unfold t1. apply sat2_intro.
          rewrite <- Nat2N.inj_add. exact W. }
      destruct (count_within _ _ _ _ C2) as [Et2 W2]. unfold t1 in W2. apply sat2_elim in W2.
      rewrite <- Nat2N.inj_add in W2.
      destruct (header_value (map field_header fs) CONTENT_LENGTH) as [v|] eqn:HV.
      2:{ cbn [shift f9]. discriminate. }
      destruct (parse_dec v) as [n|] eqn:PD.
      2:{ cbn [shift f9]. intros H; inversion H; subst. eapply RD_content_length; eassumption. }
      destruct (count_bytes cfg t2 n) as [t3|] eqn:C3.
      2:{ cbn [shift f9]. intros H; injection H as _ <-. eapply RD_declared_max; try eassumption.
          apply count_none_iff in C3. intros W. apply C3. rewrite Et2. unfold t1. apply sat3_intro.
          rewrite <- Nat2N.inj_add. exact W. }
      intros H. exfalso. revert H.
      apply (body_phase_never_rejects cfg meth u _ n t2 t3 _ rest _ (length l + 2) C3 Hcl Hlen).
    - destruct (hdr_incomplete_pending _ _ _ _ HP) as [BP Hk].
      assert (Hpm : forall x, (x <= N.of_nat (length (l ++ CRLF ++ rest)))%N -> ~ within_max cfg x ->
                    RD cfg (l ++ CRLF ++ rest) EMessageTooLong).
      { intros x Hx Hnw. eapply RD_pending_max; [exact LG|exact BP|].
        intros W. apply Hnw. eapply within_max_mono; [exact Hx|exact W]. }
      destruct (count_bytes cfg t1 (N.of_nat k)) as [t2|] eqn:C2.
      2:{ cbn [shift f9]. intros H; inversion H; subst.
          apply count_none_iff in C2.
          apply (Hpm (N.of_nat (length l + 2) + N.of_nat k)%N); [lia|].
          intros W. apply C2. unfold t1. apply sat2_intro. exact W. }
      destruct (count_within _ _ _ _ C2) as [Et2 _].
      cbn [shift f9 r_total].
      destruct (presented_ok cfg t2 _) eqn:PO; [discriminate|].
      intros H; injection H as _ <-.
      apply (Hpm (N.of_nat (length l + 2) + N.of_nat k
                  + N.of_nat (length (l ++ CRLF ++ rest) - (length l + 2 + k)))%N); [lia|].
      intros W. apply sat3_intro in W. fold t1 in W. rewrite <- Et2 in W. apply presented_ok_iff in W. congruence.
    - cbn [shift f9]. intros H; inversion H; subst. eapply RD_headers; [exact LG|].
      apply (hdr_parse_reject_iff (hl cfg) [] _ eh). exact HP.
  Qed.

  (* ------------------------------------------------------------ defect => rejection *)
  Theorem request_defect_rejected cfg s e :
    RD cfg s e -> exists st, P cfg req_init s = (st, Reject e).
  Proof.
    intros H.
    destruct H as [s F O|s F O W|l rest e Hl Hd|l rest meth u e LG BD|l rest meth u LG BP W
                   |l rest meth u fs LG BC W|l rest meth u fs v LG BC W HV PD
                   |l rest meth u fs v n LG BC W HV PD Wn].
    - exists req_init. rewrite req_parse_eq. unfold req_dispatch. cbn [r_phase req_init]. unfold req_line.
      rewrite F, O. reflexivity.
    - exists req_init. rewrite req_parse_eq. unfold req_dispatch. cbn [r_phase req_init]. unfold req_line.
      rewrite F, O. cbn [r_total req_init]. rewrite Nat.sub_0_r.
      destruct (presented_ok cfg 0 (length s)) eqn:PO; [|reflexivity].
      exfalso. apply W. apply (presented_ok_iff cfg 0 (length s)). exact PO.
    - exists req_init. rewrite (req_parse_line_form cfg l rest Hl).
      destruct Hd as [l O|l O U|l O U W|l e O U W Hs].
      + rewrite O. reflexivity.
      + rewrite O, U. reflexivity.
      + rewrite O, U. cbn [negb].
        assert (C : count_bytes cfg 0 (N.of_nat (length l + 2)) = None)
          by (apply count_none_iff; rewrite N.add_0_l; exact W).
        rewrite C. reflexivity.
      + rewrite O, U. cbn [negb].
        rewrite (count_ok_of_within cfg 0 _) by (first [rewrite N.add_0_l; exact W|unfold USIZE_MAX; lia]).
        apply parse_request_line_reject in Hs. rewrite Hs. reflexivity.
    - destruct (line_good_facts cfg l meth u LG) as [Hl [O [U [C1 PL]]]].
      rewrite (req_parse_line_form cfg l rest Hl). rewrite O, U. cbn [negb]. rewrite C1, PL.
      rewrite req_headers_form.
      apply (hdr_parse_reject_iff (hl cfg) [] _ e) in BD. rewrite BD. cbn [shift f9]. eauto.
    - destruct (line_good_facts cfg l meth u LG) as [Hl [O [U [C1 PL]]]].
      rewrite (req_parse_line_form cfg l rest Hl). rewrite O, U. cbn [negb]. rewrite C1, PL.
      rewrite req_headers_form.
      destruct (pending_incomplete _ _ BP) as [hs [k HP]]. rewrite HP.
      destruct (hdr_incomplete_pending _ _ _ _ HP) as [_ Hk].
      pose proof (strip_cr_length rest) as Hsl.
      set (t1 := sat_add 0 (N.of_nat (length l + 2))) in *.
      destruct (count_bytes cfg t1 (N.of_nat k)) as [t2|] eqn:C2; cbn [shift f9]; [|eauto].
      destruct (count_within _ _ _ _ C2) as [Et2 _]. cbn [r_total].
      destruct (presented_ok cfg t2 _) eqn:PO; [|eauto].
      exfalso. apply W. apply presented_ok_iff in PO. rewrite Et2 in PO. unfold t1 in PO.
      apply sat3_elim in PO. eapply within_max_mono; [|exact PO].
      rewrite !app_length. simpl. lia.
    - destruct (line_good_facts cfg l meth u LG) as [Hl [O [U [C1 PL]]]].
      rewrite (req_parse_line_form cfg l rest Hl). rewrite O, U. cbn [negb]. rewrite C1, PL.
      rewrite req_headers_form.
      assert (HP : hdr_parse (hl cfg) [] (strip_cr rest) =
                   HComplete (map field_header fs) (length (header_block fs)))
        by (apply hdr_complete_iff; eauto).
      rewrite HP.
      assert (C2 : count_bytes cfg (sat_add 0 (N.of_nat (length l + 2))) (N.of_nat (length (header_block fs))) = None).
      { apply count_none_iff. intros W2. apply W. apply sat2_elim in W2.
        rewrite <- Nat2N.inj_add in W2. exact W2. }
      rewrite C2. cbn [shift f9]. eauto.
    - destruct (line_good_facts cfg l meth u LG) as [Hl [O [U [C1 PL]]]].
      rewrite (req_parse_line_form cfg l rest Hl). rewrite O, U. cbn [negb]. rewrite C1, PL.
      rewrite req_headers_form.
      assert (HP : hdr_parse (hl cfg) [] (strip_cr rest) =
                   HComplete (map field_header fs) (length (header_block fs)))
        by (apply hdr_complete_iff; eauto).
      rewrite HP.
      rewrite (count_ok_of_within cfg _ _)
        by (first [apply sat2_intro; rewrite <- Nat2N.inj_add; exact W|unfold sat_add, USIZE_MAX; lia]).
      rewrite HV, PD. cbn [shift f9]. eauto.
    - destruct (line_good_facts cfg l meth u LG) as [Hl [O [U [C1 PL]]]].
      rewrite (req_parse_line_form cfg l rest Hl). rewrite O, U. cbn [negb]. rewrite C1, PL.
      rewrite req_headers_form.
      assert (HP : hdr_parse (hl cfg) [] (strip_cr rest) =
                   HComplete (map field_header fs) (length (header_block fs)))
        by (apply hdr_complete_iff; eauto).
      rewrite HP.
      rewrite (count_ok_of_within cfg _ _)
        by (first [apply sat2_intro; rewrite <- Nat2N.inj_add; exact W|unfold sat_add, USIZE_MAX; lia]).
      rewrite HV, PD.
      assert (C3 : count_bytes cfg (sat_add (sat_add 0 (N.of_nat (length l + 2))) (N.of_nat (length (header_block fs)))) n = None).
      { apply count_none_iff. intros W3. apply Wn. apply sat3_elim in W3.
        rewrite <- Nat2N.inj_add in W3. exact W3. }
      rewrite C3. cbn [shift f9]. eauto.
  Qed.

  Theorem request_reject_iff cfg s e :
    (exists st, P cfg req_init s = (st, Reject e)) <-> RD cfg s e.
  Proof.
    split; [intros [st H]; eapply request_reject_sound; exact H|apply request_defect_rejected].
  Qed.
End WithUri.
