(* C18 -- letter case of header names and coding tokens never changes framing or decoding.
   Stated over header lists: [hdrs_ci hs hs'] = same length, names equal up to ASCII case,
   values equal up to ASCII case (so in particular any case pattern of Content-Length,
   Transfer-Encoding, Trailer, Content-Encoding, Content-Type and of the tokens chunked, gzip,
   deflate, text, charset), and -- C18_*_bytes below -- over the message bytes: any change of
   ASCII letter case inside the header block leaves verdict, boundary, start-line fields, body
   and trailing data unchanged and the stored header lists equal up to letter case (for chunked
   responses also when the letter case of the trailer section changes). *)
From Coq Require Import String.
From Http Require Import Model.Bytes Model.Utf8 Model.Num Model.Headers Model.Request Model.Response
     Model.Chunked Model.Coding Spec.ChunkedGrammar Proofs.CaseLemmas Proofs.CaseBytes Proofs.CaseEndToEnd Proofs.CaseTrailer Proofs.LabelNorm.

(* every lookup the crate performs is blind to letter case *)
Theorem C18_lookups_ignore_case :
  forall (hs hs' : list header) (n n' tok tok' : bytes),
    hdrs_ci hs hs' -> ci_eq n n' -> ci_eq tok tok' ->
    header_tokens hs n = header_tokens hs' n' /\
    has_header_token hs n tok = has_header_token hs' n' tok' /\
    has_header hs n = has_header hs' n'.
Proof.
  intros hs hs' n n' tok tok' H Hn Ht. split; [|split].
  - exact (header_tokens_ci hs hs' n n' H Hn).
  - exact (has_header_token_ci hs hs' n n' tok tok' H Hn Ht).
  - exact (has_header_ci hs hs' n n' H Hn).
Qed.
Print Assumptions C18_lookups_ignore_case.

(* response framing (Content-Length value, else chunked token, else no body) *)
Theorem C18_response_framing_ignores_case :
  forall hs hs' : list header, hdrs_ci hs hs' -> resp_framing hs = resp_framing hs'.
Proof. exact resp_framing_ci. Qed.
Print Assumptions C18_response_framing_ignores_case.

(* the parser's framing decision is this function (so verdict, boundary and body follow) *)
Theorem C18_resp_headers_uses_framing :
  forall (st : resp_state) (buf : bytes) hs c,
    hdr_parse None (s_headers st) buf = HComplete hs c ->
    resp_headers st buf =
    let st1 := {| s_phase := SHeaders; s_code := s_code st; s_reason := s_reason st;
                  s_headers := hs; s_body := s_body st; s_trailer := s_trailer st |} in
    match resp_framing hs with
    | FFixed n => rshift c (resp_fixed st1 n (skipn c buf))
    | FBadLength => (st, Reject EInvalidContentLength)
    | FChunked => rshift c (resp_chunked st1 Chunked.chunk_init (skipn c buf))
    | FNone => (st1, Complete c)
    end.
Proof.
  intros st buf hs c H. unfold resp_headers, resp_framing. rewrite H. cbv zeta.
  destruct (header_value hs CONTENT_LENGTH) as [v|]; [destruct (parse_dec v); reflexivity|].
  destruct (has_header_token hs TRANSFER_ENCODING CHUNKED); reflexivity.
Qed.
Print Assumptions C18_resp_headers_uses_framing.

Theorem C18_request_framing_ignores_case :
  forall hs hs' : list header, hdrs_ci hs hs' -> req_framing hs = req_framing hs'.
Proof. exact req_framing_ci. Qed.
Print Assumptions C18_request_framing_ignores_case.

(* content decoding: same result body (or same failure) *)
Theorem C18_decode_body_ignores_case :
  forall (gunzip inflate_raw inflate_zlib : bytes -> option bytes) (hs hs' : list header) (body : bytes),
    hdrs_ci hs hs' ->
    option_map snd (decode_body gunzip inflate_raw inflate_zlib hs body) =
    option_map snd (decode_body gunzip inflate_raw inflate_zlib hs' body).
Proof. exact decode_body_ci. Qed.
Print Assumptions C18_decode_body_ignores_case.

(* text decoding: same text, given that encoding_rs matches labels case-insensitively *)
Theorem C18_decode_text_ignores_case :
  forall (enc : Type) (for_label : bytes -> option enc) (enc_decode : enc -> bytes -> option (list N)),
    (forall l l', ci_eq l l' -> for_label l = for_label l') ->
    forall (hs hs' : list header) (body : bytes),
      hdrs_ci hs hs' ->
      decode_text enc for_label enc_decode hs body = decode_text enc for_label enc_decode hs' body.
Proof. exact decode_text_ci. Qed.
Print Assumptions C18_decode_text_ignores_case.

(* the same without a hypothesis: encoding_rs's for_label as "normalise (trim ASCII whitespace, lower-case),
   then look up" (Model/Coding.v for_label_of; the driver asks the real table with the normalised label on
   every text case), for every table *)
Theorem C18_decode_text_ignores_case_any_table :
  forall (enc : Type) (lookup : bytes -> option enc) (enc_decode : enc -> bytes -> option (list N))
         (hs hs' : list header) (body : bytes),
    hdrs_ci hs hs' ->
    decode_text enc (for_label_of lookup) enc_decode hs body
    = decode_text enc (for_label_of lookup) enc_decode hs' body.
Proof. exact decode_text_ci_unconditional. Qed.
Print Assumptions C18_decode_text_ignores_case_any_table.

(* ---- at the level of bytes ---- *)
(* the header-block parser is transparent to letter case: same answer, same count, lists equal
   up to case *)
Theorem C18_header_block_parser_ignores_case :
  forall lim (hs0 hs0' : list header) (s s' : bytes),
    hdrs_ci hs0 hs0' -> ci_eq s s' -> hres_ci (hdr_parse lim hs0 s) (hdr_parse lim hs0' s').
Proof. exact hdr_parse_ci. Qed.
Print Assumptions C18_header_block_parser_ignores_case.

(* a response whose header block is [block], and the same bytes with any other letter case in
   the header block: same verdict and consumed count (so same boundary), same code, reason, body
   and trailing data, same parser phase; stored headers equal up to case (also after the
   de-chunking rewrite) *)
Theorem C18_response_bytes :
  forall (l block block' rest : bytes) (hs : list header),
    is_line l -> ci_eq block block' -> hdr_parse None [] block = HComplete hs (length block) ->
    let r := resp_parse resp_init (l ++ CRLF ++ block ++ rest) in
    let r' := resp_parse resp_init (l ++ CRLF ++ block' ++ rest) in
    snd r = snd r' /\ resp_st_ci (fst r) (fst r').
Proof. exact response_case_insensitive. Qed.
Print Assumptions C18_response_bytes.

Theorem C18_request_bytes :
  forall (uri : Type) (uri_parse : bytes -> option uri) cfg (l block block' rest : bytes) (hs : list header),
    is_line l -> ci_eq block block' -> hdr_parse (hl cfg) [] block = HComplete hs (length block) ->
    let r := req_parse uri uri_parse cfg req_init (l ++ CRLF ++ block ++ rest) in
    let r' := req_parse uri uri_parse cfg req_init (l ++ CRLF ++ block' ++ rest) in
    snd r = snd r' /\ req_st_ci uri (fst r) (fst r').
Proof. exact request_case_insensitive. Qed.
Print Assumptions C18_request_bytes.

Check (eq_refl : resp_st_ci = fun st st' =>
  s_phase st = s_phase st' /\ s_code st = s_code st' /\ s_reason st = s_reason st' /\
  hdrs_ci (s_headers st) (s_headers st') /\ s_body st = s_body st' /\ s_trailer st = s_trailer st').

Theorem C18_dechunk_rewrite_ignores_case :
  forall (hs hs' tr : list header) (body : bytes),
    hdrs_ci hs hs' -> hdrs_ci (dechunk_headers hs tr body) (dechunk_headers hs' tr body).
Proof. exact dechunk_headers_ci. Qed.
Print Assumptions C18_dechunk_rewrite_ignores_case.

(* chunked responses: letter case changed in the header block AND in the trailer section (field
   names such as Content-Length / Transfer-Encoding / Trailer that the rewrite filters, and any
   other field).  [chunked_variant wire wire']: wire is a well-formed chunked body and wire' the
   same bytes except for the letter case of the trailer section. *)
Check (CV_last : forall line block block' fields,
          size_line line 0 -> is_trailer block fields -> ci_eq block block' ->
          chunked_variant (line ++ CRLF ++ block) (line ++ CRLF ++ block')).
Theorem C18_chunked_response_bytes :
  forall (l block block' wire wire' rest : bytes) (hs : list header) code reason,
    is_line l -> utf8_valid l = true -> parse_status_line l = inl (code, reason) ->
    ci_eq block block' -> hdr_parse None [] block = HComplete hs (length block) ->
    header_value hs CONTENT_LENGTH = None -> has_header_token hs TRANSFER_ENCODING CHUNKED = true ->
    chunked_variant wire wire' ->
    exists st st' c,
      resp_parse resp_init (l ++ CRLF ++ block ++ wire ++ rest) = (st, Complete c) /\
      resp_parse resp_init (l ++ CRLF ++ block' ++ wire' ++ rest) = (st', Complete c) /\
      c = length (l ++ CRLF ++ block ++ wire) /\
      s_code st = s_code st' /\ s_reason st = s_reason st' /\ s_body st = s_body st' /\
      s_trailer st = s_trailer st' /\ hdrs_ci (s_headers st) (s_headers st').
Proof. exact chunked_response_case_insensitive. Qed.
Print Assumptions C18_chunked_response_bytes.

Example C18_bytes_example :
  let l := str "HTTP/1.1 200 OK"%string in
  let b := str "Transfer-Encoding: gzip, chunked"%string ++ CRLF ++ CRLF in
  let b' := str "TRANSFER-encoding: GZip, CHUNKED"%string ++ CRLF ++ CRLF in
  let rest := str "2"%string ++ CRLF ++ str "hi"%string ++ CRLF ++ str "0"%string ++ CRLF ++ CRLF ++ str "Z"%string in
  ci_eq b b' /\ is_line l /\
  snd (resp_parse resp_init (l ++ CRLF ++ b ++ rest)) = Complete (17 + 36 + 12) /\
  snd (resp_parse resp_init (l ++ CRLF ++ b' ++ rest)) = Complete (17 + 36 + 12).
Proof. vm_compute. repeat split. Qed.

Example C18_example :
  hdrs_ci [(str "content-LENGTH"%string, str "3"%string); (str "TRANSFER-encoding"%string, str "GZip, CHUNKED"%string)]
          [(str "Content-Length"%string, str "3"%string); (str "Transfer-Encoding"%string, str "gzip, chunked"%string)]
  /\ resp_framing [(str "transfer-ENCODING"%string, str "gzip, Chunked"%string)] = FChunked.
Proof. split; [repeat constructor|reflexivity]. Qed.
