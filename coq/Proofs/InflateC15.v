(* InflateC15.v -- the truncation and integrity facts that Proofs/CodingGlue.v takes as
   hypotheses about the stream decoders, proved for the model of flate2 (Model/Inflate.v),
   and the resulting statements about decode_body with no hypothesis left. *)
From Coq Require Import List NArith ZArith Arith Bool Lia ZifyBool ZifyN String.
From Http Require Import Model.Bytes Model.Headers Model.Coding Model.Inflate
     Proofs.Rewrite Proofs.CodingGlue Proofs.InflateLocal Proofs.InflateTop.
Import ListNotations.
Ltac Zify.zify_post_hook ::= Z.div_mod_to_equations.

(* decode_body with the modelled decoders *)
Definition decode_body_m := decode_body gunzip_model inflate_raw_model inflate_zlib_model.
Definition deflate_decode_m := deflate_decode inflate_raw_model inflate_zlib_model.

(* e is exactly one stream of format f carrying d: it decodes and nothing follows it *)
Definition exact_stream (f : format) (d e : bytes) : Prop :=
  match f with
  | Gz => gunzip_fuel (fuel_for e) e = Ok d ([], [])
  | Zl => inflate_zlib_fuel (fuel_for e) e = Ok d ([], [])
  | Raw => inflate_fuel (fuel_for e) e = Ok d ([], []) /\ zlib_header e = false
  end.

Lemma sprefix_strict p e : strict_prefix p e <-> sprefix p e.
Proof. unfold strict_prefix, sprefix. tauto. Qed.

Lemma zlib_header_ok_eq cmf flg t : zlib_header (cmf :: flg :: t) = zlib_header_ok cmf flg.
Proof.
  unfold zlib_header, zlib_header_ok.
  destruct (N.eqb (cmf mod 16) 8), (N.leb (cmf / 16) 7), (N.eqb ((flg / 32) mod 2) 0),
    (N.eqb ((cmf * 256 + flg) mod 31) 0); reflexivity.
Qed.

Lemma odd_mod x : N.odd x = (x mod 2 =? 1)%N.
Proof. rewrite <- N.bit0_odd. apply N.bit0_eqb. Qed.

(* a lone CMF byte read as a bare deflate stream: a non-final stored block with no length *)
Lemma raw_single_cmf cmf : (cmf mod 16 = 8)%N -> inflate_raw_model [cmf] = None.
Proof.
  intros H.
  assert (B0 : N.odd cmf = false) by (rewrite odd_mod; lia).
  assert (B1 : N.odd (N.div2 cmf) = false) by (rewrite N.div2_div, odd_mod; lia).
  assert (B2 : N.odd (N.div2 (N.div2 cmf)) = false) by (rewrite !N.div2_div, odd_mod; lia).
  unfold inflate_raw_model, inflate_fuel, fuel_for. cbn [length Nat.mul Nat.add blocks].
  unfold getbits, getbit, byte_bits. cbn [byte_bits_aux]. rewrite B0, B1, B2. reflexivity.
Qed.

Lemma zlib_stream_header f e d cur rest :
  inflate_zlib_fuel f e = Ok d (cur, rest) -> zlib_header e = true.
Proof.
  intros H. destruct (zlib_success_shape _ _ _ _ _ H) as [_ [cmf [flg [c [a4 [Eb [Hh _]]]]]]].
  subst e. rewrite zlib_header_ok_eq. exact Hh.
Qed.

Lemma zlib_header_prefix p e : sprefix p e -> 2 <= length p -> zlib_header p = zlib_header e.
Proof.
  intros [t [_ E]] L. subst e. destruct p as [|a [|b p']]; simpl in L; try lia. reflexivity.
Qed.

Theorem gz_truncated_m d e p : exact_stream Gz d e -> strict_prefix p e -> gunzip_model p = None.
Proof. intros H Hp. apply sprefix_strict in Hp. exact (gunzip_truncated _ _ H _ Hp). Qed.

Theorem zl_truncated_m d e p : exact_stream Zl d e -> strict_prefix p e -> deflate_decode_m p = None.
Proof.
  intros H Hp. apply sprefix_strict in Hp. unfold deflate_decode_m, deflate_decode.
  destruct (zlib_header p) eqn:Hz.
  - exact (inflate_zlib_truncated _ _ H _ Hp).
  - pose proof (zlib_stream_header _ _ _ _ _ H) as He.
    destruct p as [|a [|b p']].
    + reflexivity.
    + (* one byte: it is the CMF byte of e *)
      destruct Hp as [t [_ E]]. subst e. cbn [app] in He.
      destruct t as [|flg t']; [discriminate|].
      unfold zlib_header in He. apply raw_single_cmf.
      destruct (N.eqb (a mod 16) 8) eqn:E8; [apply N.eqb_eq; exact E8 | discriminate].
    + rewrite (zlib_header_prefix _ _ Hp) in Hz by (simpl; lia). congruence.
Qed.

Theorem raw_truncated_m d e p : exact_stream Raw d e -> strict_prefix p e -> deflate_decode_m p = None.
Proof.
  intros [H Hz] Hp. apply sprefix_strict in Hp. unfold deflate_decode_m, deflate_decode.
  assert (Hzp : zlib_header p = false).
  { destruct p as [|a [|b p']]; try reflexivity.
    rewrite (zlib_header_prefix _ _ Hp) by (simpl; lia). exact Hz. }
  rewrite Hzp. exact (inflate_raw_truncated _ _ H _ Hp).
Qed.

(* C15, truncation: no hypothesis about the decoders is left *)
Theorem truncated_body_fails_m hs f d e p :
  exact_stream f d e -> strict_prefix p e ->
  header_tokens hs CONTENT_ENCODING = [coding_token f] ->
  decode_body_m hs p = None.
Proof.
  intros He Hp Ht.
  exact (truncated_body_fails gunzip_model inflate_raw_model inflate_zlib_model exact_stream
           gz_truncated_m zl_truncated_m raw_truncated_m hs f d e p He Hp Ht).
Qed.

(* C15, integrity: when the outermost coding is gzip (resp. zlib-form deflate) and decode_body
   succeeds, the stored CRC-32 and length (resp. Adler-32) are those of the decoder's output *)
Theorem gunzip_model_checks b out :
  gunzip_model b = Some out ->
  exists pre foot rest, b = pre ++ foot ++ rest /\ length foot = 8 /\
    le32 (firstn 4 foot) = crc32 out /\ le32 (skipn 4 foot) = (N.of_nat (length out) mod M32)%N /\
    forall foot' y, length foot' = 8 ->
      le32 (firstn 4 foot') <> le32 (firstn 4 foot) \/ le32 (skipn 4 foot') <> le32 (skipn 4 foot) ->
      gunzip_fuel (fuel_for b) (pre ++ foot' ++ y) = Bad.
Proof.
  unfold gunzip_model. intros H.
  destruct (gunzip_fuel (fuel_for b) b) as [o [cur rest]| |] eqn:E; try discriminate.
  inversion H; subst o. clear H.
  destruct (gunzip_success_shape _ _ _ _ _ E) as [_ [h [c [foot [Eb [L8 [C1 [C2 _]]]]]]]].
  destruct (gunzip_altered_check_fails _ _ _ _ _ E) as [pre [foot2 [Eb2 [L82 Hf]]]].
  exists pre, foot2, rest. split; [exact Eb2|]. split; [exact L82|].
  assert (foot2 = foot).
  { assert (Hl : length pre = length (h ++ c)).
    { apply (f_equal (@length N)) in Eb. apply (f_equal (@length N)) in Eb2.
      rewrite !app_length in *. lia. }
    rewrite app_length in Hl.
    rewrite Eb in Eb2. rewrite (app_assoc h c) in Eb2.
    apply app_eq_app in Eb2. destruct Eb2 as [l [[E1 E2] | [E1 E2]]].
    - assert (l = []) by (apply (f_equal (@length N)) in E1; rewrite !app_length in E1; destruct l; [reflexivity | simpl in E1; lia]).
      subst l. simpl in E2. apply app_inv_tail in E2. congruence.
    - assert (l = []) by (apply (f_equal (@length N)) in E1; rewrite !app_length in E1; destruct l; [reflexivity | simpl in E1; lia]).
      subst l. simpl in E2. apply app_inv_tail in E2. congruence. }
  subst foot2. split; [exact C1|]. split; [exact C2|]. exact Hf.
Qed.

Theorem zlib_model_checks b out :
  inflate_zlib_model b = Some out ->
  exists pre a4 rest, b = pre ++ a4 ++ rest /\ length a4 = 4 /\ be32 a4 = adler32 out /\
    forall a4' y, length a4' = 4 -> be32 a4' <> be32 a4 ->
      inflate_zlib_fuel (fuel_for b) (pre ++ a4' ++ y) = Bad.
Proof.
  unfold inflate_zlib_model. intros H.
  destruct (inflate_zlib_fuel (fuel_for b) b) as [o [cur rest]| |] eqn:E; try discriminate.
  inversion H; subst o. clear H.
  destruct (zlib_success_shape _ _ _ _ _ E) as [_ [cmf [flg [c [a4 [Eb [Hh [L4 [Ha [X _]]]]]]]]]].
  exists (cmf :: flg :: c), a4, rest. split; [rewrite Eb; reflexivity|]. split; [exact L4|].
  split; [exact Ha|]. intros a4' y L4' Hne.
  cbn [app inflate_zlib_fuel]. rewrite Hh, X.
  rewrite (has_prefix_len_app 4 _ _ L4'). rewrite (firstn_app_exact _ _ _ L4').
  destruct (N.eqb (be32 a4') (adler32 out)) eqn:E'; [|reflexivity].
  apply N.eqb_eq in E'. exfalso. apply Hne. rewrite E', Ha. reflexivity.
Qed.
