(* CheckedReuse.v -- C06 for a Response value that is kept and fed one message after the other
   (not what the documentation describes -- it says to construct a new value -- but what a caller on a
   persistent connection may well do, and what the `reuseresp` cases of the correspondence run do).
   After a chunked message the value holds a non-empty body while the parser is back in its first
   phase; `content_length - self.body.len()` of the NEXT message cannot underflow all the same, because
   the headers of the finished message stay in the collection: the Content-Length that de-chunking
   added (equal to the body length) is joined with any new Content-Length -- two values give a text with
   a comma, which is rejected; none gives exactly the body length. *)
From Coq Require Import Lia ZifyN ZifyNat String.
From Http Require Import Model.Bytes Model.Utf8 Model.Num Model.Headers Model.Request
     Model.Chunked Model.Response Model.Checked
     Proofs.BytesLemmas Proofs.HeadersResume Proofs.ReqResume Proofs.ChunkResume Proofs.RespResume Proofs.NumShow
     Proofs.Rewrite Proofs.Safety Proofs.CheckedOk.

(* the parser only ever appends to the collection *)
Lemma hdr_loop_appends f lim : forall s acc off,
  match hdr_loop f lim s acc off with
  | HComplete hs _ | HIncomplete hs _ => exists more, hs = acc ++ more
  | HError _ => True
  end.
Proof.
  induction f as [|f IH]; intros s acc off; cbn [hdr_loop].
  - exists []. rewrite app_nil_r. reflexivity.
  - destruct (hdr_step lim s) as [|e|c|h c]; try exact I.
    + exists []. rewrite app_nil_r. reflexivity.
    + exists []. rewrite app_nil_r. reflexivity.
    + specialize (IH (skipn c s) (acc ++ [h]) (off + c)).
      destruct (hdr_loop f lim (skipn c s) (acc ++ [h]) (off + c)) as [hs k|hs k|e]; try exact I;
        destruct IH as [more ->]; exists (h :: more); rewrite <- app_assoc; reflexivity.
Qed.

Lemma hdr_parse_appends lim hs s :
  match hdr_parse lim hs s with
  | HComplete hs' _ | HIncomplete hs' _ => exists more, hs' = hs ++ more
  | HError _ => True
  end.
Proof. apply hdr_loop_appends. Qed.

Lemma multi_value_app a b n :
  header_multi_value (a ++ b) n = header_multi_value a n ++ header_multi_value b n.
Proof. unfold header_multi_value. rewrite filter_app, map_app. reflexivity. Qed.

(* a joined list of two or more values is not a number *)
Lemma forallb_digit_comma a b : forallb is_digit (a ++ COMMA :: b) = false.
Proof.
  rewrite forallb_app. cbn [forallb]. replace (is_digit COMMA) with false by reflexivity.
  cbn [andb]. apply andb_false_r.
Qed.

Lemma parse_dec_nondigit s : forallb is_digit s = false -> parse_dec s = None.
Proof. unfold parse_dec. destruct s as [|a t]; [reflexivity|]. intros H. rewrite H. reflexivity. Qed.

Lemma parse_dec_joined x y r : parse_dec (join [COMMA] (x :: y :: r)) = None.
Proof.
  apply parse_dec_nondigit.
  change (join [COMMA] (x :: y :: r)) with (x ++ COMMA :: join [COMMA] (y :: r)).
  apply forallb_digit_comma.
Qed.

(* the collection pins the body length: its first Content-Length is the body length *)
Definition pinned (hs : list header) (body : bytes) : Prop :=
  exists rest, header_multi_value hs CONTENT_LENGTH = show_dec (N.of_nat (length body)) :: rest.

Lemma pinned_app hs more body : pinned hs body -> pinned (hs ++ more) body.
Proof. intros [rest E]. unfold pinned. rewrite multi_value_app, E. eexists. reflexivity. Qed.

Lemma pinned_length hs body v n :
  pinned hs body -> (N.of_nat (length body) <= USIZE_MAX)%N ->
  header_value hs CONTENT_LENGTH = Some v -> parse_dec v = Some n -> n = N.of_nat (length body).
Proof.
  intros [rest E] Hsz. unfold header_value. rewrite E. intros H. inversion H; subst v. clear H.
  destruct rest as [|y r].
  - cbn [join]. rewrite parse_show_dec by exact Hsz. intros H. inversion H. reflexivity.
  - change (parse_dec (join [COMMA] (show_dec (N.of_nat (length body)) :: y :: r)) = Some n -> n = N.of_nat (length body)).
    rewrite parse_dec_joined. discriminate.
Qed.

Lemma pinned_has_cl hs body : pinned hs body -> header_value hs CONTENT_LENGTH <> None.
Proof. intros [rest E]. unfold header_value. rewrite E. discriminate. Qed.

(* ---- the invariant of a value that is kept across messages ---- *)
Definition resp_inv2 (st : resp_state) : Prop :=
  match s_phase st with
  | SFixedBody n => (N.of_nat (length (s_body st)) <= n)%N
  | SChunkedBody cs => cwf cs /\ header_value (s_headers st) CONTENT_LENGTH = None
  | _ => s_body st = [] \/ pinned (s_headers st) (s_body st)
  end.

Lemma resp_inv2_init : resp_inv2 resp_init.
Proof. left. reflexivity. Qed.

Definition body_ok (st : resp_state) : Prop := (N.of_nat (length (s_body st)) <= ISIZE_MAX)%N.

(* -- preservation, for every answer that is not a rejection -- *)
Lemma rshift_ok k r st' o :
  rshift k r = (st', o) -> exists o0, r = (st', o0) /\ (match o with Reject _ => match o0 with Reject _ => True | _ => False end | _ => match o0 with Reject _ => False | _ => True end end).
Proof. destruct r as [s [a|a|e]]; simpl; intros H; inversion H; subst; eexists; split; try reflexivity; exact I. Qed.

Lemma resp_fixed_inv2 st n buf st' o :
  (N.of_nat (length (s_body st)) <= n)%N -> resp_fixed st n buf = (st', o) -> resp_inv2 st'.
Proof.
  intros H. unfold resp_fixed. destruct (N.leb _ _) eqn:E; intros X; inversion X; subst;
    unfold resp_inv2; cbn [s_phase s_body]; rewrite app_length.
  - apply N.leb_le in E. rewrite firstn_length. lia.
  - apply N.leb_gt in E. lia.
Qed.

Lemma resp_chunked_inv2 st cs buf st' o :
  cwf cs -> header_value (s_headers st) CONTENT_LENGTH = None ->
  resp_chunked st cs buf = (st', o) -> match o with Reject _ => True | _ => resp_inv2 st' end.
Proof.
  intros Hwf Hcl. unfold resp_chunked.
  pose proof (chunk_decode_app cs buf [] Hwf) as A.
  destruct (chunk_decode cs buf) as [cs' [k|k|e]]; intros X; inversion X; subst.
  - (* complete: the rewritten headers pin the body *)
    unfold resp_inv2. cbn [s_phase s_headers s_body]. right.
    exists []. apply dechunk_content_length. exact Hcl.
  - unfold resp_inv2. cbn [s_phase s_headers]. split; [tauto|exact Hcl].
  - exact I.
Qed.

Lemma resp_headers_inv2 st buf st' o :
  (s_body st = [] \/ pinned (s_headers st) (s_body st)) -> body_ok st ->
  resp_headers st buf = (st', o) -> match o with Reject _ => True | _ => resp_inv2 st' end.
Proof.
  intros Hinv Hsz. unfold resp_headers.
  pose proof (hdr_parse_appends None (s_headers st) buf) as App.
  destruct (hdr_parse None (s_headers st) buf) as [hs k|hs k|e].
  - destruct App as [more ->].
    assert (Hinv' : s_body st = [] \/ pinned (s_headers st ++ more) (s_body st)).
    { destruct Hinv as [E|P]; [left; exact E|right; apply pinned_app; exact P]. }
    destruct (header_value (s_headers st ++ more) CONTENT_LENGTH) as [v|] eqn:HV.
    + destruct (parse_dec v) as [n|] eqn:PD; [|intros X; inversion X; exact I].
      intros X. apply rshift_ok in X as [o0 [X Ho]].
      assert (Hle : (N.of_nat (length (s_body st)) <= n)%N).
      { destruct Hinv' as [E|P]; [rewrite E; cbn [length]; lia|].
        unfold body_ok, ISIZE_MAX in Hsz.
        assert (En : n = N.of_nat (length (s_body st))).
        { eapply pinned_length; [exact P| |exact HV|exact PD]. unfold USIZE_MAX. lia. }
        lia. }
      assert (R : resp_inv2 st') by (eapply resp_fixed_inv2; [|exact X]; cbn [s_body]; exact Hle).
      destruct o; try exact R; exact I.
    + destruct (has_header_token (s_headers st ++ more) TRANSFER_ENCODING CHUNKED).
      * intros X. apply rshift_ok in X as [o0 [X Ho]].
        assert (R : match o0 with Reject _ => True | _ => resp_inv2 st' end)
          by (eapply resp_chunked_inv2; [exact cwf_init| |exact X]; cbn [s_headers]; exact HV).
        destruct o, o0; try exact R; try exact I; try contradiction.
      * intros X. inversion X; subst. unfold resp_inv2. cbn [s_phase s_body s_headers]. exact Hinv'.
  - destruct App as [more ->]. intros X. inversion X; subst.
    unfold resp_inv2. cbn [s_phase s_body s_headers].
    destruct Hinv as [E|P]; [left; exact E|right; apply pinned_app; exact P].
  - intros X. inversion X; exact I.
Qed.

Theorem resp_inv2_preserved st buf st' o :
  resp_inv2 st -> body_ok st -> resp_parse st buf = (st', o) ->
  match o with Reject _ => True | _ => resp_inv2 st' end.
Proof.
  unfold resp_inv2 at 1, resp_parse. destruct (s_phase st) as [| |n|cs] eqn:Hph; intros Hinv Hsz.
  - unfold resp_line. destruct (find_crlf buf) as [e|].
    + destruct (negb _); [intros X; inversion X; exact I|].
      destruct (parse_status_line _) as [[code reason]|er]; [|intros X; inversion X; exact I].
      intros X. apply rshift_ok in X as [o0 [X Ho]].
      assert (R : match o0 with Reject _ => True | _ => resp_inv2 st' end)
        by (eapply resp_headers_inv2; [| |exact X]; [cbn [s_body s_headers]; exact Hinv|exact Hsz]).
      destruct o, o0; try exact R; try exact I; try contradiction.
    + intros X. inversion X; subst. unfold resp_inv2. rewrite Hph. exact Hinv.
  - apply resp_headers_inv2; assumption.
  - intros X. pose proof (resp_fixed_inv2 _ _ _ _ _ Hinv X) as R. destruct o; try exact R; exact I.
  - destruct Hinv as [Hwf Hcl]. apply resp_chunked_inv2; assumption.
Qed.

(* every state of a value fed any number of messages, calls answered with a rejection excluded
   (the documentation leaves the value unspecified then) *)
Inductive resp_reach2 : resp_state -> Prop :=
| resp_reach2_init : resp_reach2 resp_init
| resp_reach2_step st buf st' o :
    resp_reach2 st -> body_ok st -> resp_parse st buf = (st', o) ->
    (match o with Reject _ => False | _ => True end) -> resp_reach2 st'.

Lemma resp_reach2_inv st : resp_reach2 st -> resp_inv2 st.
Proof.
  induction 1 as [|st buf st' o _ IH Hsz E Ho]; [apply resp_inv2_init|].
  pose proof (resp_inv2_preserved _ _ _ _ IH Hsz E) as R. destruct o; try exact R; contradiction.
Qed.

(* ---- the checked parser under the weaker invariant ---- *)
Lemma c_resp_loop_headers2 f st raw total :
  s_phase st = SHeaders -> total <= length raw ->
  (s_body st = [] \/ pinned (s_headers st) (s_body st)) ->
  (N.of_nat (length raw) <= ISIZE_MAX)%N ->
  (N.of_nat (length (s_body st)) + N.of_nat (length raw) <= ISIZE_MAX)%N ->
  (N.of_nat (length (s_trailer st)) + N.of_nat (length raw) <= ISIZE_MAX)%N ->
  cok_roeq (c_resp_loop (S (S f)) st raw total) (rshift total (resp_headers st (skipn total raw))).
Proof.
  intros Hph Ht Hinv Hraw Hbd Htr. rewrite c_resp_loop_step.
  rewrite ck_from_ok by exact Ht. cbn [cbind].
  unfold c_resp_step. rewrite Hph. unfold c_resp_headers, resp_headers.
  set (rem := skipn total raw).
  assert (Hl : length rem = length raw - total) by (subst rem; apply skipn_length).
  pose proof (hdr_parse_bound None (s_headers st) rem) as Hc.
  pose proof (hdr_parse_appends None (s_headers st) rem) as App.
  destruct (hdr_parse None (s_headers st) rem) as [hs c|hs c|e]; cbn [cbind].
  - destruct App as [more ->].
    destruct (header_value (s_headers st ++ more) CONTENT_LENGTH) as [v|] eqn:HV.
    + destruct (parse_dec v) as [n|] eqn:PD; cbn [cbind]; [|apply cok_refl].
      assert (Hle : (N.of_nat (length (s_body st)) <= n)%N).
      { destruct Hinv as [E|P]; [rewrite E; cbn [length]; lia|].
        assert (En : n = N.of_nat (length (s_body st))).
        { eapply pinned_length; [apply pinned_app; exact P| |exact HV|exact PD].
          unfold USIZE_MAX, ISIZE_MAX in *. lia. }
        lia. }
      rewrite ck_grow_ok by lia. cbn [cbind].
      rewrite (small_add_ok _ _ _ (length raw)) by lia. cbn [cbind].
      rewrite (c_resp_loop_fixed f _ n raw (total + c)); cbn [s_phase s_body s_trailer];
        try reflexivity; try lia.
      * rewrite rshift_rshift. subst rem. rewrite skipn_skipn'. rewrite (Nat.add_comm c total).
        unfold resp_fixed. cbn [s_phase s_code s_reason s_headers s_body s_trailer]. apply cok_refl.
      * unfold resp_fits. cbn [s_phase s_body s_trailer]. repeat split; lia.
    + destruct (has_header_token (s_headers st ++ more) TRANSFER_ENCODING CHUNKED); cbn [cbind].
      * rewrite (small_add_ok _ _ _ (length raw)) by lia. cbn [cbind].
        rewrite (c_resp_loop_chunked f _ chunk_init raw (total + c)); cbn [s_phase c_buffer chunk_init length];
          try reflexivity; try lia; try exact cwf_init.
        rewrite rshift_rshift. subst rem. rewrite skipn_skipn'. rewrite (Nat.add_comm c total).
        eexists. split; [reflexivity|]. apply roeq_rshift. apply resp_chunked_phase; reflexivity.
      * rewrite (small_add_ok _ _ _ (length raw)) by lia. apply cok_refl.
  - rewrite (small_add_ok _ _ _ (length raw)) by lia. apply cok_refl.
  - apply cok_refl.
Qed.

Lemma c_resp_loop_line2 f st raw total :
  s_phase st = SStatusLine -> total <= length raw ->
  (s_body st = [] \/ pinned (s_headers st) (s_body st)) ->
  (N.of_nat (length raw) <= ISIZE_MAX)%N ->
  (N.of_nat (length (s_body st)) + N.of_nat (length raw) <= ISIZE_MAX)%N ->
  (N.of_nat (length (s_trailer st)) + N.of_nat (length raw) <= ISIZE_MAX)%N ->
  cok_roeq (c_resp_loop (S (S (S f))) st raw total) (rshift total (resp_line st (skipn total raw))).
Proof.
  intros Hph Ht Hinv Hraw Hbd Htr. rewrite c_resp_loop_step.
  rewrite ck_from_ok by exact Ht. cbn [cbind].
  unfold c_resp_step. rewrite Hph. unfold c_resp_line, resp_line.
  set (rem := skipn total raw).
  assert (Hl : length rem = length raw - total) by (subst rem; apply skipn_length).
  destruct (find_crlf rem) as [e|] eqn:F.
  - pose proof (find_crlf_bound _ _ F) as B.
    rewrite ck_to_ok by lia. cbn [cbind].
    destruct (utf8_valid (firstn e rem)) eqn:V; cbn [negb cbind]; [|apply cok_refl].
    rewrite (small_add_ok _ _ _ (length raw)) by lia. cbn [cbind].
    rewrite c_parse_status_line_ok; [|exact V|rewrite firstn_length; lia]. cbn [cbind].
    destruct (parse_status_line (firstn e rem)) as [[code reason]|er]; cbn [cbind]; [|apply cok_refl].
    rewrite (small_add_ok _ _ _ (length raw)) by lia. cbn [cbind].
    assert (H : cok_roeq (c_resp_loop (S (S f))
                {| s_phase := SHeaders; s_code := code; s_reason := reason; s_headers := s_headers st;
                   s_body := s_body st; s_trailer := s_trailer st |} raw (total + (e + 2)))
              (rshift (total + (e + 2)) (resp_headers
                {| s_phase := SHeaders; s_code := code; s_reason := reason; s_headers := s_headers st;
                   s_body := s_body st; s_trailer := s_trailer st |} (skipn (total + (e + 2)) raw)))).
    { apply c_resp_loop_headers2; cbn [s_phase s_body s_trailer s_headers]; try reflexivity; try lia; assumption. }
    destruct H as [r' [E R]].
    exists r'. split; [exact E|].
    rewrite rshift_rshift. subst rem. rewrite skipn_skipn'. rewrite (Nat.add_comm (e + 2) total). exact R.
  - cbn [cbind]. rewrite (small_add_ok _ _ _ (length raw)) by lia. cbn [cbind rshift].
    rewrite Nat.add_0_r. apply cok_refl.
Qed.

(* Response::parse on a value that has been fed any number of messages: no operation fails *)
Theorem c_resp_parse_ok2 st raw :
  resp_inv2 st -> resp_fits st raw ->
  cok_roeq (c_resp_parse st raw) (resp_parse st raw).
Proof.
  intros Hinv Hfit. pose proof Hfit as [Hf1 [Hf2 Hf3]]. unfold c_resp_parse, resp_parse.
  unfold resp_inv2 in Hinv.
  assert (Hraw : (N.of_nat (length raw) <= ISIZE_MAX)%N) by lia.
  destruct (s_phase st) as [| |n|cs] eqn:Hph.
  - destruct (c_resp_loop_line2 0 st raw 0) as [r' [E R]]; try assumption; try lia.
    exists r'. split; [exact E|]. cbn [skipn] in R. rewrite rshift_0 in R. exact R.
  - destruct (c_resp_loop_headers2 1 st raw 0) as [r' [E R]]; try assumption; try lia.
    exists r'. split; [exact E|]. cbn [skipn] in R. rewrite rshift_0 in R. exact R.
  - rewrite (c_resp_loop_fixed _ st n); try assumption; try lia. cbn [skipn]. rewrite rshift_0. apply cok_refl.
  - destruct Hinv as [Hwf _].
    rewrite (c_resp_loop_chunked _ st cs); try assumption; try lia. cbn [skipn]. rewrite rshift_0. apply cok_refl.
Qed.

Theorem c_resp_parse_reused st raw :
  resp_reach2 st -> resp_fits st raw -> cok_roeq (c_resp_parse st raw) (resp_parse st raw).
Proof. intros R. apply c_resp_parse_ok2. apply resp_reach2_inv. exact R. Qed.

(* ---- requests: a value that is kept after completion ---- *)
Section ReqReuse.
  Variable uri : Type.
  Variable uri_parse : bytes -> option uri.

  Inductive req_reach2 (cfg : rcfg) : req_state uri -> Prop :=
  | req_reach2_init : req_reach2 cfg req_init
  | req_reach2_step st buf st' o :
      req_reach2 cfg st -> req_parse uri uri_parse cfg st buf = (st', o) ->
      (match o with Reject _ => False | _ => True end) -> req_reach2 cfg st'.

  Lemma req_reach2_inv cfg st : req_reach2 cfg st -> body_inv uri st.
  Proof.
    induction 1 as [|st buf st' o _ IH E Ho]; [reflexivity|].
    rewrite req_parse_eq in E.
    destruct (req_dispatch uri uri_parse cfg st buf) as [s [k|k|e]] eqn:D.
    - inversion E; subst.
      pose proof (req_dispatch_inv uri uri_parse cfg st buf st' (Complete k) IH D) as H. cbv beta iota in H. apply H.
    - destruct (presented_ok _ _ _); inversion E; subst; [|contradiction].
      pose proof (req_dispatch_inv uri uri_parse cfg st buf st' (Incomplete k) IH D) as H. cbv beta iota in H. apply H.
    - inversion E; subst. contradiction.
  Qed.

  Theorem c_req_parse_reused cfg st raw :
    req_reach2 cfg st -> fits (length (r_body st)) raw ->
    c_req_parse uri uri_parse cfg st raw = COk (req_parse uri uri_parse cfg st raw).
  Proof. intros R. apply c_req_parse_ok. apply (req_reach2_inv cfg). exact R. Qed.
End ReqReuse.
