#!/usr/bin/env python3
"""panic_sites.py -- inventory of the operations in /repo/src (non-test code) that can panic, and its
comparison with the partial operations of coq/Model/Checked.v.

Regenerated from the source on every run of the C06 check.  A site is `file:function:expression`:
  * index / slice expressions  recv[expr]            (out of range, str char boundary)
  * usize arithmetic            a + b, a - b, a * b, x += y, x -= y   (overflow: panic in dev, wrap in release)
  * Vec growth                  .reserve(..) / .extend(..)            (capacity overflow)
  * explicit panics             unwrap() expect( panic! unreachable! assert! todo! unimplemented!
Each site found must be either a label of a partial operation in Model/Checked.v (then the theorem
C06_*_never_panics covers it) or listed in tools/panic_sites_reviewed.json with the reason why it cannot
fail; each label in Checked.v must be found in the source.  The result is data for the check (which
escalates its crash search when the two differ) and for the evidence file; it is never a verdict."""
import json, os, re, sys

ROOT = os.path.dirname(os.path.dirname(os.path.abspath(__file__)))
SRC = os.environ.get("VERIF_REPO", "/repo") + "/src"
FILES = ["lib.rs", "request.rs", "response.rs", "chunked_body.rs", "coding.rs"]


def strip_tests(text):
    # the unit tests are a trailing `#[cfg(test)] mod tests { ... }`
    m = re.search(r"^#\[cfg\(test\)\]\s*\nmod\s+\w+\s*\{", text, re.M)
    return text[:m.start()] if m else text


def neutralise(text):
    """remove comments; replace string and char literals by placeholders (same-length not needed)"""
    out, i, n = [], 0, len(text)
    while i < n:
        c = text[i]
        if text.startswith("//", i):
            j = text.find("\n", i)
            i = n if j < 0 else j
        elif text.startswith("/*", i):
            j = text.find("*/", i + 2)
            i = n if j < 0 else j + 2
        elif c == '"':
            j = i + 1
            while j < n and text[j] != '"':
                j += 2 if text[j] == "\\" else 1
            out.append('"S"')
            i = j + 1
        elif c == "b" and text.startswith("b'", i):
            j = i + 2
            while j < n and text[j] != "'":
                j += 2 if text[j] == "\\" else 1
            out.append("b'C'")
            i = j + 1
        elif c == "'" and re.match(r"'(\\.|[^\\'])'", text[i:i + 4]):
            m = re.match(r"'(\\.|[^\\'])'", text[i:i + 4])
            out.append("'C'")
            i += m.end()
        else:
            out.append(c)
            i += 1
    return "".join(out)


def functions(text):
    """(name, body text) for every fn item, bodies found by brace matching; nested fns/closures stay inside"""
    res = []
    for m in re.finditer(r"\bfn\s+(\w+)", text):
        i = text.find("{", m.end())
        semi = text.find(";", m.end())
        if i < 0 or (0 <= semi < i):
            continue
        depth, j = 0, i
        while j < len(text):
            if text[j] == "{":
                depth += 1
            elif text[j] == "}":
                depth -= 1
                if depth == 0:
                    break
            j += 1
        res.append((m.group(1), text[i:j + 1], m.start()))
    # drop functions nested in another function's body (they are scanned with the outer one)
    top = []
    for name, body, pos in res:
        if not any(p < pos < p + len(b) + 200 and pos > p and (pos < p + (text.find(b, p) - p) + len(b)) and name != n2
                   for n2, b, p in res if p < pos and text.find(b, p) + len(b) > pos):
            top.append((name, body))
    return top


OPERAND = r"[\w\.\:]+(?:\([^()]*(?:\([^()]*\)[^()]*)*\))?(?:\.\w+\([^()]*\))*"


def sites_in(fn, body):
    s = re.sub(r"\s+", " ", body)
    found = []
    # attributes are not index expressions
    s_noattr = re.sub(r"#!?\[[^\]]*\]", "", s)
    for m in re.finditer(r"([A-Za-z_][\w\.]*|\))\[([^\[\]]+)\]", s_noattr):
        recv, idx = m.group(1), m.group(2).strip()
        if idx == "..":
            continue            # full range: cannot fail
        found.append(("index", f"{recv}[{idx}]"))
    for m in re.finditer(r"(" + OPERAND + r")\s(\+=|-=|\*=)\s(" + OPERAND + r")", s):
        found.append(("arith", f"{m.group(1)} {m.group(2)} {m.group(3)}"))
    for m in re.finditer(r"(?<![=<>!&|+\-*])(" + OPERAND + r")\s([+\-*])\s(" + OPERAND + r")", s):
        a, op, b = m.group(1), m.group(2), m.group(3)
        if a in ("T", "B") or a.startswith("&") or a in ("mut", "dyn", "impl", "as", "return", "let", "=", "=>"):
            continue
        b = b.rstrip(".")
        found.append(("arith", f"{a} {op} {b}"))
        # a chained expression a * k + b: report the second operator too
        rest = s[m.end():]
        m2 = re.match(r"\s([+\-*])\s(" + OPERAND + r")", rest)
        if m2:
            found.append(("arith", f"{a} {op} {b} {m2.group(1)} {m2.group(2).rstrip('.')}"))
    for m in re.finditer(r"([\w\.]+)\s?\.(reserve|extend)\(", s):
        # argument up to the matching parenthesis
        i, depth = m.end(), 1
        while i < len(s) and depth:
            depth += {"(": 1, ")": -1}.get(s[i], 0)
            i += 1
        found.append(("grow", f"{m.group(1)}.{m.group(2)}({s[m.end():i - 1]})"))
    for m in re.finditer(r"\.(unwrap|expect)\(|\b(panic|unreachable|assert|assert_eq|assert_ne|debug_assert|todo|unimplemented)!", s):
        found.append(("explicit", m.group(0).strip(".(")))
    return [(k, fn, e) for k, e in found]


def scan():
    sites = []
    for f in FILES:
        p = os.path.join(SRC, f)
        if not os.path.exists(p):
            continue
        text = neutralise(strip_tests(open(p).read()))
        for name, body in functions(text):
            for kind, fn, expr in sites_in(name, body):
                sites.append({"kind": kind, "site": f"{f}:{fn}:{expr}"})
    # de-duplicate, keep multiplicity
    return sites


def checked_labels():
    text = open(os.path.join(ROOT, "coq", "Model", "Checked.v")).read()
    return sorted(set(re.findall(r'"((?:lib|request|response|chunked_body|coding)\.rs:[^"]+)"', text)))


def compare():
    sites = scan()
    labels = checked_labels()
    reviewed = json.load(open(os.path.join(ROOT, "tools", "panic_sites_reviewed.json")))
    rev = {r["site"]: r["why"] for r in reviewed}
    src_set = {}
    for s in sites:
        src_set[s["site"]] = src_set.get(s["site"], 0) + 1

    def label_key(l):           # labels may carry a parenthesised note after the expression
        return re.sub(r" \((terminated|unterminated) line\)$", "", l)
    label_keys = {}
    for l in labels:
        label_keys.setdefault(label_key(l), []).append(l)
    unaccounted = sorted(s for s in src_set if s not in label_keys and s not in rev and not loop_label(s))
    stale = sorted(k for k in label_keys if k not in src_set and not k.endswith("loop does not end"))
    stale_reviewed = sorted(s for s in rev if s not in src_set)
    return {"sites_in_source": len(sites), "distinct": len(src_set),
            "proved_in_checked_model": sorted(k for k in label_keys if k in src_set),
            "reviewed_cannot_fail": sorted(s for s in rev if s in src_set),
            "unaccounted": unaccounted, "stale_labels": stale, "stale_reviewed": stale_reviewed,
            "multiplicity": {s: n for s, n in src_set.items() if n > 1}}


def loop_label(s):
    return False


if __name__ == "__main__":
    if len(sys.argv) > 1 and sys.argv[1] == "scan":
        for s in scan():
            print(s["kind"], s["site"])
    else:
        r = compare()
        print(json.dumps(r, indent=1))
        sys.exit(0 if not (r["unaccounted"] or r["stale_labels"]) else 3)
