(* TrailingData.v -- the trailing data of a completed response is exactly the delivered bytes
   that follow the boundary, under every delivery schedule (C02, second half). *)
From Coq Require Import Lia ZifyN ZifyNat.
From Http Require Import Model.Bytes Model.Utf8 Model.Num Model.Headers Model.Request
     Model.Chunked Model.Response Spec.Delivery
     Proofs.BytesLemmas Proofs.HeadersResume Proofs.ChunkResume Proofs.RespResume Proofs.Safety.

(* one call: an Incomplete answer leaves the trailing data alone; a Complete one appends the
   bytes of this call from some position k <= consumed on *)
Definition trailer_step (st : resp_state) (buf : bytes) (r : resp_state * outcome) : Prop :=
  match r with
  | (st1, Incomplete _) => s_trailer st1 = s_trailer st
  | (st1, Complete c) =>
      exists k, k <= c /\ c <= length buf /\ s_trailer st1 = s_trailer st ++ skipn k (firstn c buf)
  | (_, Reject _) => True
  end.

Lemma trailer_step_rshift st buf j r :
  j <= length buf ->
  trailer_step st (skipn j buf) r -> trailer_step st buf (rshift j r).
Proof.
  intros Hj. destruct r as [st1 [c|c|e]]; cbn [rshift trailer_step]; try tauto.
  intros [k [Hk [Hc Ht]]]. rewrite skipn_length in Hc. exists (j + k). split; [lia|]. split; [lia|].
  rewrite Ht. f_equal. rewrite firstn_plus. rewrite skipn_app.
  rewrite firstn_length. replace (Nat.min j (length buf)) with j by lia.
  replace (j + k - j) with k by lia.
  rewrite (skipn_all2 (firstn j buf)); [reflexivity|].
  apply Nat.le_trans with j; [apply firstn_le_length|lia].
Qed.

Lemma resp_fixed_trailer st n buf : trailer_step st buf (resp_fixed st n buf).
Proof.
  unfold resp_fixed. cbv zeta.
  destruct (N.leb _ _) eqn:E; cbn [trailer_step s_trailer]; [|reflexivity].
  apply N.leb_le in E.
  exists (N.to_nat (n - N.of_nat (length (s_body st)))). split; [lia|]. split; [reflexivity|].
  rewrite firstn_all. reflexivity.
Qed.

Lemma resp_chunked_trailer st cs buf : cwf cs -> trailer_step st buf (resp_chunked st cs buf).
Proof.
  intros Hwf. unfold resp_chunked.
  destruct (chunk_decode cs buf) as [cs' [c|c|e]] eqn:E; cbn [trailer_step s_trailer];
    [|reflexivity|exact I].
  pose proof (chunk_decode_consumed cs buf cs' c Hwf (or_introl E)) as Hc.
  exists c. split; [lia|]. split; [exact Hc|].
  rewrite skipn_all2 by (rewrite firstn_length; lia). rewrite app_nil_r. reflexivity.
Qed.

Lemma resp_headers_trailer st buf : trailer_step st buf (resp_headers st buf).
Proof.
  unfold resp_headers.
  destruct (hdr_parse None (s_headers st) buf) as [hs c|hs c|e] eqn:HP; cbn [trailer_step s_trailer];
    [|reflexivity|exact I].
  pose proof (hdr_parse_complete_tail _ _ _ _ _ HP) as [_ [Hc _]]. cbv zeta.
  set (st1 := {| s_phase := SHeaders; s_code := s_code st; s_reason := s_reason st;
                 s_headers := hs; s_body := s_body st; s_trailer := s_trailer st |}).
  destruct (header_value hs CONTENT_LENGTH) as [v|].
  - destruct (parse_dec v) as [n|]; [|exact I].
    apply (trailer_step_rshift st buf c _ Hc). apply (resp_fixed_trailer st1 n).
  - destruct (has_header_token hs TRANSFER_ENCODING CHUNKED).
    + apply (trailer_step_rshift st buf c _ Hc). apply (resp_chunked_trailer st1 chunk_init). exact cwf_init.
    + cbn [trailer_step s_trailer]. exists c. split; [lia|]. split; [exact Hc|].
      rewrite skipn_all2 by (rewrite firstn_length; lia). rewrite app_nil_r. reflexivity.
Qed.

Lemma resp_line_trailer st buf : trailer_step st buf (resp_line st buf).
Proof.
  unfold resp_line. destruct (find_crlf buf) as [e|] eqn:E; [|reflexivity]. cbv zeta.
  pose proof (find_crlf_bound _ _ E) as B.
  destruct (negb _); [exact I|].
  destruct (parse_status_line _) as [[code reason]|er]; [|exact I].
  apply (trailer_step_rshift st buf (e + 2)); [lia|].
  set (st' := {| s_phase := SHeaders; s_code := code; s_reason := reason; s_headers := s_headers st;
                 s_body := s_body st; s_trailer := s_trailer st |}).
  apply (resp_headers_trailer st').
Qed.

Lemma resp_parse_trailer st buf : rwf st -> trailer_step st buf (resp_parse st buf).
Proof.
  intros Hwf. unfold resp_parse. destruct (s_phase st) as [| |n|cs] eqn:Hph.
  - apply resp_line_trailer.
  - apply resp_headers_trailer.
  - apply resp_fixed_trailer.
  - apply resp_chunked_trailer. unfold rwf in Hwf. rewrite Hph in Hwf. exact Hwf.
Qed.

(* well-formedness of the decoder state is kept by Incomplete answers *)
Lemma resp_parse_rwf st buf st1 c : rwf st -> resp_parse st buf = (st1, Incomplete c) -> rwf st1.
Proof.
  intros Hwf H. pose proof (resp_parse_spec st buf [] Hwf) as HS. unfold rspec in HS.
  rewrite H in HS. tauto.
Qed.

(* the delivery protocol: [pre] = bytes consumed so far *)
Theorem feed_trailing_data ds : forall st pending tot pre st' tot' rest,
  rwf st -> s_trailer st = [] -> length pre = tot ->
  feed resp_state resp_parse st pending ds tot = Done st' tot' rest ->
  exists k used,
    tot <= k /\ k <= tot' /\
    firstn tot' (pre ++ pending ++ concat ds) = used /\ length used = tot' /\
    s_trailer st' = skipn k used.
Proof.
  induction ds as [|d ds IH]; intros st pending tot pre st' tot' rest Hwf Htr Hpre H; [discriminate|].
  cbn [feed] in H.
  pose proof (resp_parse_trailer st (pending ++ d) Hwf) as HT.
  destruct (resp_parse st (pending ++ d)) as [s1 [c|c|e]] eqn:E; try discriminate.
  - inversion H; subst st' tot' rest. clear H.
    cbn [trailer_step] in HT. destruct HT as [k [Hk [Hc Ht]]]. rewrite Htr in Ht. cbn [app] in Ht.
    exists (tot + k), (pre ++ firstn c (pending ++ d)).
    split; [lia|]. split; [lia|]. split; [|split].
    + cbn [concat]. rewrite (app_assoc pending d). rewrite <- Hpre.
      rewrite firstn_app. rewrite firstn_all2 by lia.
      replace (length pre + c - length pre) with c by lia.
      rewrite firstn_app_le by exact Hc. reflexivity.
    + rewrite app_length, firstn_length. lia.
    + rewrite Ht. rewrite <- Hpre. rewrite skipn_app. rewrite (skipn_all2 pre) by lia.
      replace (length pre + k - length pre) with k by lia. reflexivity.
  - cbn [trailer_step] in HT.
    pose proof (resp_parse_consumed st (pending ++ d) s1 c Hwf (or_intror E)) as Hc.
    pose proof (resp_parse_rwf _ _ _ _ Hwf E) as Hwf1.
    destruct (IH s1 (skipn c (pending ++ d)) (tot + c) (pre ++ firstn c (pending ++ d)) st' tot' rest
                 Hwf1 ltac:(rewrite HT; exact Htr) ltac:(rewrite app_length, firstn_length; lia) H)
      as [k [used [H1 [H2 [H3 [H4 H5]]]]]].
    exists k, used. split; [lia|]. split; [exact H2|]. split; [|split; assumption].
    rewrite <- H3. f_equal. cbn [concat]. rewrite <- !app_assoc. f_equal.
    rewrite (app_assoc pending d). rewrite (app_assoc (firstn c (pending ++ d))).
    rewrite firstn_skipn. reflexivity.
Qed.
