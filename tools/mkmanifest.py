#!/usr/bin/env python3
"""Regenerate MANIFEST.json: a property is claimed iff coq/Props/<id>.v exists."""
import json, os
ROOT = os.path.dirname(os.path.dirname(os.path.abspath(__file__)))
props = [json.loads(l) for l in open(os.path.join(ROOT, "properties.jsonl"))]

COMMON_NOTE = ("Trusted: Coq 8.16.1 kernel (coqchk re-check in the thorough tier), no axioms (every Print Assumptions is "
               "'Closed under the global context'); the hand-written Gallina model of the crate and of rhymessage's header parser; "
               "the correspondence run (Rust harness, extracted OCaml driver with ExtrOcamlBasic only) which ties the model to the "
               "code built from /repo's working tree by sampling, not by proof; 64-bit usize; error categories instead of payloads. ")

T = {
 "C01": ("Theorem C01_request_delivery_independent: for every URI oracle, limit configuration, stream and non-empty list of deliveries, "
         "feeding the deliveries under the documented protocol ends like the one call on the whole stream (same parser value and total when "
         "accepted or when more input is needed, both rejected otherwise); proved from the one-call resumption law (req_parse_spec), itself by "
         "induction over the header parser's loop, with the F1/F2/F9 behaviour included. Unbounded in stream length, number of deliveries and limits. "
         "The correspondence run compares every call's (status, consumed) and the public fields for thousands of schedules incl. all 2^(n-1) cuts of "
         "short streams and exact-limit CR|LF cuts, and checks whole-vs-split directly on the implementation.",
         "rhymuri is an arbitrary function parameter of the theorem (holds for every oracle)."),
 "C02": ("Theorem C02_response_delivery_independent: same statement for Response::parse with [same_response] = same code, reason, final headers, "
         "body and boundary (consumed minus trailing data); covers fixed, chunked (all four decoder sub-states, extensions, folded trailers) and "
         "body-less framing; proved from resp_parse_spec / chunk_decode_app (chunk loop induction). Correspondence: per-call trace, fields, trailing "
         "data = delivered bytes after the boundary, all cuts of short chunked streams.",
         "Trailing data equality with the delivered bytes is checked on the implementation and model by the run; the Coq statement fixes the boundary."),
 "C09": ("Theorems C09_request_suffix / C09_request_local / C09_response_suffix / C09_request_pipeline / C09_response_pipeline: a Complete answer is "
         "unchanged by any appended bytes, depends only on the consumed bytes, and a concatenation of messages is split by fresh parsers at the "
         "message lengths (responses: by the boundary). Corollaries of the resumption and locality lemmas, induction on the number of messages.",
         ""),
 "C17": ("Theorems C17_decimal_exact / C17_hex_exact (the crate's field parsers accept exactly 1*DIGIT / 1*HEXDIG fitting usize), "
         "C17_request_content_length (any accepted request under any delivery schedule: Content-Length value is digits only), C17_status_code, "
         "C17_chunk_size, C17_response_content_length, and C17_std_parser_extra (what the pre-fix std parsers accepted in addition: exactly a leading '+'). "
         "Correspondence: exhaustive short strings over a 16-symbol alphabet in each of the four fields plus inserted non-digits.",
         ""),
}

DEFAULT_TEXT = "see DESIGN.md section 6"


def main():
    claimed = [p["id"] for p in props if os.path.exists(os.path.join(ROOT, "coq", "Props", p["id"] + ".v"))]
    checks = []
    for p in props:
        if p["id"] not in claimed:
            continue
        text, extra = T.get(p["id"], (DEFAULT_TEXT, ""))
        checks.append({
            "property_id": p["id"],
            "quick_cmd": f"./check {p['id']} --quick",
            "thorough_cmd": f"./check {p['id']} --thorough",
            "evidence_file": f"/verif/evidence/{p['id']}.json",
            "replay_cmd_template": f"./check {p['id']} --replay {{path}}",
            "engine": "coq-model+correspondence",
            "level_claimed": {"category": "proof", "text": text, "design_ref": f"DESIGN.md section 6, {p['id']}"},
            "level_note": COMMON_NOTE + extra,
            "technique": "machine-checked proof in Coq 8.16 (induction / invariants over an executable Gallina model) + differential correspondence run of the extracted model against the crate",
        })
    m = {"version": 1,
         "setup_cmd": "./setup.sh",
         "hooks": {"guard": "rhymuweb_verif",
                   "enable": "no source hooks exist: the checks build /repo as it is (the cfg flag rhymuweb_verif is reserved and unused)",
                   "baseline_off_cmd": "cd /repo && cargo test --workspace --no-fail-fast --offline",
                   "source_commits": [], "add_only": True},
         "engines": [{"name": "coq-model+correspondence", "path": "/verif/check", "serves_properties": claimed,
                      "kind_free_text": "Coq theorems (coq/Props) about an executable model (coq/Model); the model is extracted to OCaml (ocaml/driver) and compared with the real crate (harness/) on generated cases (tools/check.py, tools/gens.py)"}],
         "checks": checks,
         "not_applicable": [{"property_id": p["id"], "reason": "not yet claimed: the correspondence check exists and passes, the theorem file is still being written"}
                            for p in props if p["id"] not in claimed],
         "notes": "One engine for all properties; ./check <id> --quick|--thorough|--replay <file>. Known findings: known_findings.json. Seeded changes and what detects them: seeded/RESULTS.json and DESIGN.md."}
    json.dump(m, open(os.path.join(ROOT, "MANIFEST.json"), "w"), indent=1)
    print("claimed:", claimed)


if __name__ == "__main__":
    main()
