(* TextDecode.v -- decode_body_as_text honours Content-Type and charset (C16). *)
From Coq Require Import Lia String.
From Http Require Import Model.Bytes Model.Utf8 Model.Num Model.Headers Model.Coding
     Proofs.Utf8Lemmas.

(* the part of a Content-Type value before the first ';' *)
Definition type_subtype (ct : bytes) : bytes :=
  match find_byte SEMI ct with Some d => firstn d ct | None => ct end.
Definition parameters (ct : bytes) : bytes :=
  match find_byte SEMI ct with Some d => skipn (S d) ct | None => [] end.

Lemma content_type_charset_text ct cs :
  content_type_charset ct = Some cs ->
  exists ty sub, split_at SLASH (type_subtype ct) = Some (ty, sub) /\ eq_ignore_case ty TEXT = true
                 /\ cs = match find_charset (split_on SEMI (parameters ct)) with
                         | Some c => c | None => ISO_8859_1 end.
Proof.
  unfold content_type_charset, type_subtype, parameters.
  destruct (find_byte SEMI ct) as [d|].
  - destruct (split_at SLASH (firstn d ct)) as [[ty sub]|]; [|discriminate].
    destruct (eq_ignore_case ty TEXT) eqn:E; [|discriminate].
    intros H. inversion H. exists ty, sub. repeat split. exact E.
  - destruct (split_at SLASH ct) as [[ty sub]|]; [|discriminate].
    destruct (eq_ignore_case ty TEXT) eqn:E; [|discriminate].
    intros H. inversion H. exists ty, sub. repeat split. exact E.
Qed.

Section Enc.
  Variable enc : Type.
  Variable for_label : bytes -> option enc.
  Variable enc_decode : enc -> bytes -> option (list N).
  Notation decode_text := (decode_text enc for_label enc_decode).

  (* text is returned only for a text type, and it is what the encoding selected by the
     charset parameter (default ISO-8859-1) decodes, without any other source of characters *)
  Theorem decode_text_some hs body t :
    decode_text hs body = Some t ->
    exists ct ty sub cs e,
      header_value hs CONTENT_TYPE = Some ct /\
      split_at SLASH (type_subtype ct) = Some (ty, sub) /\ eq_ignore_case ty TEXT = true /\
      cs = match find_charset (split_on SEMI (parameters ct)) with
           | Some c => c | None => ISO_8859_1 end /\
      for_label (utf8_encode cs) = Some e /\ enc_decode e body = Some t.
  Proof.
    unfold Coding.decode_text.
    destruct (header_value hs CONTENT_TYPE) as [ct|]; [|discriminate].
    destruct (content_type_charset ct) as [cs|] eqn:C; [|discriminate].
    destruct (for_label (utf8_encode cs)) as [e|] eqn:L; [|discriminate].
    intros H. destruct (content_type_charset_text _ _ C) as [ty [sub [H1 [H2 H3]]]].
    exists ct, ty, sub, cs, e. repeat split; assumption.
  Qed.

  Theorem decode_text_none_without_type hs body :
    header_value hs CONTENT_TYPE = None -> decode_text hs body = None.
  Proof. intros H. unfold Coding.decode_text. rewrite H. reflexivity. Qed.

  Theorem decode_text_none_unknown_charset hs body ct cs :
    header_value hs CONTENT_TYPE = Some ct -> content_type_charset ct = Some cs ->
    for_label (utf8_encode cs) = None -> decode_text hs body = None.
  Proof. intros H1 H2 H3. unfold Coding.decode_text. rewrite H1, H2, H3. reflexivity. Qed.

  Theorem decode_text_none_not_text hs body ct :
    header_value hs CONTENT_TYPE = Some ct -> content_type_charset ct = None ->
    decode_text hs body = None.
  Proof. intros H1 H2. unfold Coding.decode_text. rewrite H1, H2. reflexivity. Qed.
End Enc.

(* the UTF-8 decoder: text exactly when the body is valid UTF-8, and then the text's bytes
   are the body (never a replacement character; a BOM stays as U+FEFF) *)
Theorem utf8_text_exact body :
  (utf8_valid body = true <-> exists t, utf8_decode body = Some t) /\
  (forall t, utf8_decode body = Some t -> utf8_encode t = body).
Proof. split; [apply utf8_decode_iff_valid|apply utf8_decode_roundtrip]. Qed.

(* ISO-8859-1 as encoding_rs implements it (windows-1252): total, one character per byte,
   ASCII unchanged *)
Theorem w1252_total body :
  length (w1252_decode body) = length body /\
  forall i b, nth_error body i = Some b -> (b < 128)%N -> nth_error (w1252_decode body) i = Some b.
Proof.
  unfold w1252_decode. split; [apply map_length|].
  intros i b H Hb. rewrite nth_error_map, H. simpl. f_equal.
  unfold w1252_char. destruct (between 128 159 b) eqn:E; [|reflexivity].
  apply between_spec in E. lia.
Qed.
