(* Utf8Split.v -- UTF-8 validity and line-freeness across concatenation at an ASCII byte. *)
From Coq Require Import Lia ZifyN ZifyBool.
From Http Require Import Model.Bytes Model.Utf8 Proofs.BytesLemmas Proofs.Utf8Lemmas.

Lemma is_cont_ascii x : (x < 128)%N -> is_cont x = false.
Proof. intros H. unfold is_cont. apply between_false. lia. Qed.

Lemma between_high_ascii lo hi x : (128 <= lo)%N -> (x < 128)%N -> between lo hi x = false.
Proof. intros H1 H2. apply between_false. lia. Qed.

(* a valid string followed by anything: validity is that of the rest *)
Lemma utf8_valid_app_n n : forall a b, length a <= n -> utf8_valid a = true -> utf8_valid (a ++ b) = utf8_valid b.
Proof.
  induction n as [|n IH]; intros a b Hn Ha.
  - destruct a; [reflexivity|simpl in Hn; lia].
  - destruct a as [|b0 t]; [reflexivity|]. simpl in Hn.
    cbn [app]. cbn [utf8_valid] in Ha |- *.
    destruct (N.ltb b0 128); [apply IH; [lia|exact Ha]|].
    destruct (between 194 223 b0).
    { destruct t as [|b1 t1]; [discriminate|]. apply andb_prop in Ha as [C1 Ha].
      cbn [app]. rewrite C1. cbn [andb]. apply IH; [simpl in Hn; lia|exact Ha]. }
    destruct (between 224 239 b0).
    { destruct t as [|b1 [|b2 t2]]; try discriminate.
      apply andb_prop in Ha as [C Ha]. cbn [app]. rewrite C. cbn [andb].
      apply IH; [simpl in Hn; lia|exact Ha]. }
    destruct (between 240 244 b0); [|discriminate].
    destruct t as [|b1 [|b2 [|b3 t3]]]; try discriminate.
    apply andb_prop in Ha as [C Ha]. cbn [app]. rewrite C. cbn [andb].
    apply IH; [simpl in Hn; lia|exact Ha].
Qed.

Lemma utf8_valid_app a b : utf8_valid a = true -> utf8_valid (a ++ b) = utf8_valid b.
Proof. apply (utf8_valid_app_n (length a)). apply le_n. Qed.

(* a valid string cut right before an ASCII byte: the part before it is valid on its own *)
Lemma utf8_valid_split_n n : forall a x b,
  length a <= n -> (x < 128)%N -> utf8_valid (a ++ x :: b) = true -> utf8_valid a = true.
Proof.
  induction n as [|n IH]; intros a x b Hn Hx H.
  - destruct a; [reflexivity|simpl in Hn; lia].
  - destruct a as [|b0 t]; [reflexivity|]. simpl in Hn.
    cbn [app] in H. cbn [utf8_valid] in H |- *.
    pose proof (is_cont_ascii x Hx) as Cx.
    destruct (N.ltb b0 128); [apply (IH t x b); [lia|exact Hx|exact H]|].
    destruct (between 194 223 b0).
    { destruct t as [|b1 t1]; cbn [app] in H.
      - rewrite Cx in H. discriminate.
      - apply andb_prop in H as [C1 H]. rewrite C1. cbn [andb].
        apply (IH t1 x b); [simpl in Hn; lia|exact Hx|exact H]. }
    destruct (between 224 239 b0).
    { destruct t as [|b1 [|b2 t2]]; cbn [app] in H.
      - exfalso. destruct b as [|c1 b']; [discriminate|].
        apply andb_prop in H as [H _]. apply andb_prop in H as [H _].
        destruct (N.eqb b0 224); [rewrite (between_high_ascii 160 191 x) in H by (lia || exact Hx); discriminate|].
        destruct (N.eqb b0 237); [rewrite (between_high_ascii 128 159 x) in H by (lia || exact Hx); discriminate|].
        rewrite Cx in H. discriminate.
      - exfalso. apply andb_prop in H as [H _]. apply andb_prop in H as [_ H]. rewrite Cx in H. discriminate.
      - apply andb_prop in H as [C H]. rewrite C. cbn [andb].
        apply (IH t2 x b); [simpl in Hn; lia|exact Hx|exact H]. }
    destruct (between 240 244 b0); [|discriminate].
    destruct t as [|b1 [|b2 [|b3 t3]]]; cbn [app] in H.
    + exfalso. destruct b as [|c1 [|c2 b']]; try discriminate.
      apply andb_prop in H as [H _]. apply andb_prop in H as [H _]. apply andb_prop in H as [H _].
      destruct (N.eqb b0 240); [rewrite (between_high_ascii 144 191 x) in H by (lia || exact Hx); discriminate|].
      destruct (N.eqb b0 244); [rewrite (between_high_ascii 128 143 x) in H by (lia || exact Hx); discriminate|].
      rewrite Cx in H. discriminate.
    + exfalso. destruct b as [|c1 b']; [discriminate|].
      apply andb_prop in H as [H _]. apply andb_prop in H as [H _]. apply andb_prop in H as [_ H].
      rewrite Cx in H. discriminate.
    + exfalso. apply andb_prop in H as [H _]. apply andb_prop in H as [_ H]. rewrite Cx in H. discriminate.
    + apply andb_prop in H as [C H]. rewrite C. cbn [andb].
      apply (IH t3 x b); [simpl in Hn; lia|exact Hx|exact H].
Qed.

Lemma utf8_valid_split a x b : (x < 128)%N -> utf8_valid (a ++ x :: b) = true -> utf8_valid a = true.
Proof. apply (utf8_valid_split_n (length a)). apply le_n. Qed.

(* no CRLF in m, none in u, and u does not start with LF: none in m ++ u *)
Lemma find_crlf_app_both_none m u :
  find_crlf m = None -> find_crlf u = None -> starts_lf u = false -> find_crlf (m ++ u) = None.
Proof.
  intros Hm Hu Hs. induction m as [|a m IH]; [exact Hu|].
  destruct m as [|b t].
  - cbn [app]. destruct u as [|c w]; [reflexivity|]. rewrite find_crlf_cons2.
    cbn [starts_lf] in Hs. rewrite Hs. rewrite Bool.andb_false_r. rewrite Hu. reflexivity.
  - rewrite find_crlf_cons2 in Hm. change ((a :: b :: t) ++ u) with (a :: b :: (t ++ u)).
    rewrite find_crlf_cons2. destruct (N.eqb a CR && N.eqb b LF)%bool; [discriminate|].
    destruct (find_crlf (b :: t)) eqn:E; [discriminate|].
    change (b :: t ++ u) with ((b :: t) ++ u). rewrite (IH eq_refl). reflexivity.
Qed.

Lemma find_crlf_prefix_none a b : find_crlf (a ++ b) = None -> find_crlf a = None.
Proof.
  intros H. destruct (find_crlf a) as [i|] eqn:E; [|reflexivity].
  rewrite (find_crlf_app a b i E) in H. discriminate.
Qed.
